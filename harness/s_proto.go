package main

import (
	"bytes"
	"context"
	"encoding/json"
	"errors"
	"fmt"
	"io"
	"math"
	"net/http"
	"net/http/httptest"
	"net/url"
	"os"
	"sort"
	"strconv"
	"strings"
	"time"

	connect "github.com/bufbuild/connect-go"
	"google.golang.org/protobuf/proto"
	"google.golang.org/protobuf/reflect/protoreflect"
	"google.golang.org/protobuf/types/known/anypb"
	"google.golang.org/protobuf/types/known/durationpb"
	"google.golang.org/protobuf/types/known/wrapperspb"
)

// Protocol-level streams through real handlers and real clients.
//   serve proto= kind= ct= names= resp= comp= min= hdr= trl= sends= result=      -> canonical response
//   cdec  proto= kind= accepts= max= stext= status= hdr= body= trl=             -> canonical client observation

func init() {
	register("proto", "C05", streamProto)
}

type goErr struct {
	kind string // none coded plain canceled deadline
	w    *wireErr
	meta hdr
	text string
}

func parseGoErr(s string) goErr {
	switch {
	case s == "none", s == "canceled", s == "deadline":
		return goErr{kind: s}
	case strings.HasPrefix(s, "plain:"):
		return goErr{kind: "plain", text: string(unhx(s[6:]))}
	case strings.HasPrefix(s, "plaineof:"), strings.HasPrefix(s, "plaintmo:"):
		return goErr{kind: s[:8], text: string(unhx(s[9:]))}
	case strings.HasPrefix(s, "coded:"), strings.HasPrefix(s, "codedctx:"), strings.HasPrefix(s, "codedwrap:"), strings.HasPrefix(s, "codedeof:"), strings.HasPrefix(s, "codedjoin:"), strings.HasPrefix(s, "codedas:"), strings.HasPrefix(s, "codedunenc:"), strings.HasPrefix(s, "codedunrend:"):
		kind := s[:strings.IndexByte(s, ':')]
		p := strings.SplitN(s[len(kind)+1:], "@", 2)
		return goErr{kind: kind, w: parseWireErr(p[0]), meta: parseHdr(p[1])}
	}
	panic("bad result " + s)
}

func (g goErr) build() error {
	switch g.kind {
	case "none":
		return nil
	case "canceled":
		return context.Canceled
	case "deadline":
		return context.DeadlineExceeded
	case "plain":
		return errors.New(g.text)
	case "plaineof":
		// an ordinary error of the application that happens to wrap io.EOF (a backend hung up)
		return &textOver{text: g.text, inner: io.EOF}
	case "plaintmo":
		// ... or an I/O timeout of its own (os.ErrDeadlineExceeded; Timeout() is true): still an
		// uncoded error, nothing to do with the call's deadline
		return &textOver{text: g.text, inner: os.ErrDeadlineExceeded}
	}
	var cause error = errors.New(g.w.msg)
	if g.kind == "codedeof" {
		cause = &textOver{text: g.w.msg, inner: io.EOF}
	}
	if g.kind == "codedctx" {
		// the handler's own coded error, whose cause happens to be a context error
		cause = &textOver{text: g.w.msg, inner: context.DeadlineExceeded}
	}
	e := connect.NewError(connect.Code(g.w.code), cause)
	for _, d := range g.w.details {
		e.AddDetail(detailToAny(d)) // codedunrend: the last of them is an Any of a type this binary does not know
	}
	if g.kind == "codedunenc" {
		// one more detail, of the application's own type, which cannot be made into an Any
		e.AddDetail(&countingDetail{&wrapperspb.StringValue{Value: "bad \xff bytes"}})
	}
	for k, vs := range g.meta {
		e.Meta()[k] = append([]string(nil), vs...)
	}
	switch g.kind {
	case "codedjoin":
		// the coded error joined with another one (errors.Join; only errors.As finds it)
		return errors.Join(e, errors.New("and a log line"))
	case "codedas":
		// an error type of the application's own that presents the coded error through As
		return asCoded{e}
	}
	if g.kind == "codedwrap" {
		// … or the coded error wrapped once more on its way out of the handler
		return &textOver{text: "while handling: " + g.w.msg, inner: e}
	}
	return e
}

// textOver is an error with a text of its own that wraps another error.
type textOver struct {
	text  string
	inner error
}

func (t *textOver) Error() string { return t.text }
func (t *textOver) Unwrap() error { return t.inner }

func ctFor(proto, kind, codec string) string {
	switch proto {
	case "connect":
		if kind == "unary" {
			return "application/" + codec
		}
		return "application/connect+" + codec
	case "grpc":
		return "application/grpc+" + codec
	}
	return "application/grpc-web+" + codec
}

func encHeaderFor(proto, kind string) (enc, accept string) {
	switch {
	case proto == "connect" && kind == "unary":
		return "Content-Encoding", "Accept-Encoding"
	case proto == "connect":
		return "Connect-Content-Encoding", "Connect-Accept-Encoding"
	}
	return "Grpc-Encoding", "Grpc-Accept-Encoding"
}

func copyInto(dst http.Header, src hdr) {
	for k, vs := range src {
		for _, v := range vs {
			dst.Add(k, v)
		}
	}
}

// buildHandler makes a real handler of the given kind executing the program.
func buildHandler(kind string, min int, h, t hdr, sends [][]byte, result goErr, extra ...connect.HandlerOption) *connect.Handler {
	opts := append([]connect.HandlerOption{connect.WithCodec(rawCodec{"raw"}),
		connect.WithCompression("rle", newRLEDecompressor, newRLECompressor), connect.WithCompressMinBytes(min)}, extra...)
	switch kind {
	case "unary":
		return connect.NewUnaryHandler("/s/m", func(ctx context.Context, r *connect.Request[[]byte]) (*connect.Response[[]byte], error) {
			if err := result.build(); err != nil {
				return nil, err
			}
			res := connect.NewResponse(&sends[0])
			copyInto(res.Header(), h)
			copyInto(res.Trailer(), t)
			return res, nil
		}, opts...)
	case "client":
		return connect.NewClientStreamHandler("/s/m", func(ctx context.Context, s *connect.ClientStream[[]byte]) (*connect.Response[[]byte], error) {
			for s.Receive() {
			}
			if err := result.build(); err != nil {
				return nil, err
			}
			res := connect.NewResponse(&sends[0])
			copyInto(res.Header(), h)
			copyInto(res.Trailer(), t)
			return res, nil
		}, opts...)
	case "server":
		return connect.NewServerStreamHandler("/s/m", func(ctx context.Context, r *connect.Request[[]byte], s *connect.ServerStream[[]byte]) error {
			copyInto(s.ResponseHeader(), h)
			for i := range sends {
				if err := s.Send(&sends[i]); err != nil {
					return err
				}
			}
			copyInto(s.ResponseTrailer(), t)
			return result.build()
		}, opts...)
	}
	return connect.NewBidiStreamHandler("/s/m", func(ctx context.Context, s *connect.BidiStream[[]byte, []byte]) error {
		for {
			if _, err := s.Receive(); err != nil {
				break
			}
		}
		copyInto(s.ResponseHeader(), h)
		for i := range sends {
			if err := s.Send(&sends[i]); err != nil {
				return err
			}
		}
		copyInto(s.ResponseTrailer(), t)
		return result.build()
	}, opts...)
}

type recorded struct {
	status  int
	header  http.Header
	trailer http.Header
	body    []byte
}

func serveReal(proto, kind string, comp bool, h *connect.Handler) recorded {
	var body []byte
	if proto == "connect" && kind == "unary" {
		body = []byte{}
	} else {
		body = frame(0, nil)
	}
	req := httptest.NewRequest(http.MethodPost, "/s/m", bytes.NewReader(body))
	req.ProtoMajor, req.ProtoMinor, req.Proto = 2, 0, "HTTP/2.0"
	req.Header["Content-Type"] = []string{ctFor(proto, kind, "raw")}
	_, acc := encHeaderFor(proto, kind)
	if comp {
		req.Header[acc] = []string{"rle"}
	}
	rec := httptest.NewRecorder()
	h.ServeHTTP(rec, req)
	res := rec.Result()
	b, _ := io.ReadAll(res.Body)
	header := http.Header{}
	for k, v := range res.Header {
		if !strings.HasPrefix(k, http.TrailerPrefix) { // a real server sends these as HTTP trailers only
			header[k] = v
		}
	}
	return recorded{status: res.StatusCode, header: header, trailer: res.Trailer, body: b}
}

func splitHexList(s string) [][]byte {
	if s == "none" {
		return nil
	}
	var out [][]byte
	for _, p := range strings.Split(s, ",") {
		out = append(out, unhx(p))
	}
	return out
}

func serveOp(c *Ctx, op string) {
	c.Begin(op)
	a := kvArgs(strings.Fields(op))
	proto, kind := a["proto"], a["kind"]
	min := atoi(a["min"])
	h, t := parseHdr(a["hdr"]), parseHdr(a["trl"])
	sends := splitHexList(a["sends"])
	for i := range sends {
		if sends[i] == nil {
			sends[i] = []byte{}
		}
	}
	result := parseGoErr(a["result"])
	var rec recorded
	ans := safely(func() string {
		handler := buildHandler(kind, min, h, t, sends, result)
		rec = serveReal(proto, kind, a["comp"] == "1", handler)
		enc, _ := encHeaderFor(proto, kind)
		r, note := canonicalResponse(proto, kind, rec.status, rec.header, rec.trailer, rec.body, enc)
		// (an error whose details cannot be encoded at all leaves a response that is not
		// well-formed - no body, no end-of-stream message: what matters then is that the peer
		// sees a failure, see clientRoundtrip)
		if result.kind != "codedunenc" {
			if note != "" {
				c.Fail("wire-"+note, op, showResp(r), "the response is not well-formed for the protocol: "+note)
			}
			wireOracle(c, op, proto, kind, r, rec, result)
		}
		return showResp(r)
	})
	if strings.HasPrefix(ans, "PANIC") {
		c.Fail("serve-panic", op, ans, "serving panicked")
	}
	c.Count("serve:" + proto + "/" + kind + "/" + result.kind)
	c.Emit(op, ans, true)
	if strings.HasPrefix(ans, "status=") {
		// the same real response, decoded by a real client: C02 / C11 oracles + model of the client
		clientRoundtrip(c, op, proto, kind, rec, h, t, sends, result)
	}
}

// wireOracle: the structural clauses of C05 on a real response.
func wireOracle(c *Ctx, op, proto, kind string, r *sresp, rec recorded, result goErr) {
	failed := result.kind != "none"
	ct := rec.header.Get("Content-Type")
	switch {
	case proto == "connect" && kind == "unary":
		if failed {
			if r.status >= 200 && r.status < 300 {
				c.Fail("wire-unary-error-2xx", op, showResp(r), "a failed unary Connect call must have a non-2xx HTTP status")
			}
			if ct != "application/json" {
				c.Fail("wire-unary-error-ct", op, ct, "a unary Connect error must be JSON")
			}
		} else if ct != "application/raw" {
			c.Fail("wire-content-type-echo", op, ct, "the response Content-Type must echo the request's")
		}
	case proto == "connect":
		ends := 0
		for i, it := range r.body {
			if it.kind == "end" {
				ends++
				if i != len(r.body)-1 {
					c.Fail("wire-endstream-not-last", op, showResp(r), "the end-of-stream envelope must be last")
				}
			}
		}
		if ends != 1 || r.status != 200 {
			c.Fail("wire-endstream-count", op, showResp(r), "a Connect stream ends with exactly one end-of-stream envelope under HTTP 200")
		}
		if ct != ctFor(proto, kind, "raw") {
			c.Fail("wire-content-type-echo", op, ct, "the response Content-Type must echo the request's")
		}
	default:
		n := len(r.header["Grpc-Status"]) + len(r.trailer["Grpc-Status"])
		for _, it := range r.body {
			if it.kind == "web" {
				n += len(it.header["Grpc-Status"])
			}
		}
		if n != 1 || r.status != 200 {
			c.Fail("wire-grpc-status-count", op, showResp(r), "gRPC responses are HTTP 200 with exactly one grpc-status")
		}
		if proto == "grpc" && len(r.trailer["Grpc-Status"]) != 1 {
			c.Fail("wire-grpc-status-place", op, showResp(r), "gRPC sends grpc-status in HTTP trailers")
		}
		if ct != ctFor(proto, kind, "raw") {
			c.Fail("wire-content-type-echo", op, ct, "the response Content-Type must echo the request's")
		}
		for _, hm := range []hdr{r.header, r.trailer} {
			for _, v := range hm["Grpc-Message"] {
				for i := 0; i < len(v); i++ {
					if v[i] < 0x20 || v[i] > 0x7e {
						c.Fail("wire-grpc-message-unprintable", op, v, "Grpc-Message must be printable ASCII (percent-encoded)")
					}
				}
			}
		}
	}
	enc, _ := encHeaderFor(proto, kind)
	named := rec.header.Get(enc) != "" && rec.header.Get(enc) != "identity"
	for _, it := range r.body {
		if it.kind == "f" && it.flags&1 != 0 && !named {
			c.Fail("wire-compressed-unnamed", op, showResp(r), "a message is flagged compressed although no encoding header names an algorithm")
		}
	}
}

type clientView struct {
	msgs    [][]byte
	err     error
	header  http.Header
	trailer http.Header
	hasHT   bool
	// the trailer map obtained before the stream was drained does not show what the one obtained
	// afterwards shows
	heldTrailerDiffers bool
}

func fromHTTP(h http.Header) hdr {
	out := hdr{}
	for k, v := range h {
		if len(v) > 0 {
			out[k] = v
		}
	}
	return out
}

// callClient runs a real client of the kind against the HTTPClient and observes everything.
func callClient(proto, kind string, hc connect.HTTPClient, reqHeader hdr, reqMsgs [][]byte, extra ...connect.ClientOption) (v clientView) {
	opts := append([]connect.ClientOption{connect.WithCodec(rawCodec{"raw"}), connect.WithAcceptCompression("rle", newRLEDecompressor, newRLECompressor)}, extra...)
	switch proto {
	case "grpc":
		opts = append(opts, connect.WithGRPC())
	case "grpcweb":
		opts = append(opts, connect.WithGRPCWeb())
	}
	cl := connect.NewClient[[]byte, []byte](hc, "http://h/s/m", opts...)
	ctx := context.Background()
	first := []byte{}
	if len(reqMsgs) > 0 {
		first = reqMsgs[0]
	}
	switch kind {
	case "unary":
		req := connect.NewRequest(&first)
		copyInto(req.Header(), reqHeader)
		res, err := cl.CallUnary(ctx, req)
		v.err = err
		if err == nil {
			v.msgs, v.header, v.trailer, v.hasHT = [][]byte{*res.Msg}, res.Header(), res.Trailer(), true
		}
	case "client":
		s := cl.CallClientStream(ctx)
		copyInto(s.RequestHeader(), reqHeader)
		for i := range reqMsgs {
			if err := s.Send(&reqMsgs[i]); err != nil {
				break
			}
		}
		res, err := s.CloseAndReceive()
		v.err = err
		if err == nil {
			v.msgs, v.header, v.trailer, v.hasHT = [][]byte{*res.Msg}, res.Header(), res.Trailer(), true
		}
	case "server":
		req := connect.NewRequest(&first)
		copyInto(req.Header(), reqHeader)
		s, err := cl.CallServerStream(ctx, req)
		if err != nil {
			v.err = err
			return v
		}
		early := s.ResponseTrailer() // "not fully populated until Receive returns": the same map, filled later
		for s.Receive() {
			v.msgs = append(v.msgs, append([]byte{}, (*s.Msg())...))
		}
		v.err = s.Err()
		v.header, v.trailer, v.hasHT = s.ResponseHeader(), s.ResponseTrailer(), true
		v.heldTrailerDiffers = v.err == nil && showHdr(fromHTTP(early)) != showHdr(fromHTTP(v.trailer))
		_ = s.Close()
	default:
		s := cl.CallBidiStream(ctx)
		copyInto(s.RequestHeader(), reqHeader)
		for i := range reqMsgs {
			if err := s.Send(&reqMsgs[i]); err != nil {
				break
			}
		}
		_ = s.CloseRequest()
		early := s.ResponseTrailer()
		defer func() {
			v.heldTrailerDiffers = v.err == nil && v.hasHT && showHdr(fromHTTP(early)) != showHdr(fromHTTP(v.trailer))
		}()
		for {
			m, err := s.Receive()
			if err != nil {
				if !errors.Is(err, io.EOF) {
					v.err = err
				}
				break
			}
			v.msgs = append(v.msgs, append([]byte{}, (*m)...))
		}
		v.header, v.trailer, v.hasHT = s.ResponseHeader(), s.ResponseTrailer(), true
		_ = s.CloseResponse()
	}
	return v
}

func errView(err error) (*wireErr, hdr, bool) {
	var ce *connect.Error
	if !errors.As(err, &ce) {
		return nil, nil, false
	}
	w := &wireErr{code: int(ce.Code()), msg: ce.Message()}
	for _, d := range ce.Details() {
		if a, ok := d.(*anypb.Any); ok {
			w.details = append(w.details, anyToDetail(a))
		} else {
			a, _ := anypb.New(d)
			w.details = append(w.details, anyToDetail(a))
		}
	}
	m := hdr{}
	for k, vs := range ce.Meta() {
		m[k] = append([]string(nil), vs...)
	}
	return w, m, true
}

func showView(kind string, v clientView) string {
	msgs := "none"
	if len(v.msgs) > 0 {
		parts := make([]string, len(v.msgs))
		for i, m := range v.msgs {
			parts[i] = hx(m)
		}
		msgs = strings.Join(parts, ",")
	}
	res := "ok"
	if v.err != nil {
		w, m, ok := errView(v.err)
		if !ok {
			res = "uncoded-error"
		} else {
			toToyDetailsBin(m)
			res = showWireErr(w) + "@" + showHdr(m)
		}
	}
	h, t := hdr{}, hdr{}
	if v.hasHT && !((kind == "unary" || kind == "client") && v.err != nil) {
		for k, vs := range v.header {
			h[k] = append([]string(nil), vs...)
		}
		for k, vs := range v.trailer {
			t[k] = append([]string(nil), vs...)
		}
		toToyDetailsBin(h)
		toToyDetailsBin(t)
	}
	return fmt.Sprintf("msgs=%s res=%s hdr=%s trl=%s", msgs, res, showHdr(h), showHdr(t))
}

func subset(want hdr, got http.Header) (string, bool) {
	for k, vs := range want {
		g := got[k]
		// per-key order preserved: want's values appear in g in order
		i := 0
		for _, x := range g {
			if i < len(vs) && x == vs[i] {
				i++
			}
		}
		if i != len(vs) {
			return k, false
		}
	}
	return "", true
}

// clientRoundtrip: feed the real response to a real client; C02/C11 oracles; emit the cdec op.
func clientRoundtrip(c *Ctx, op, proto, kind string, rec recorded, h, t hdr, sends [][]byte, result goErr) {
	sc := &staticClient{status: rec.status, header: rec.header, trailer: rec.trailer, body: rec.body}
	v := callClient(proto, kind, sc, nil, [][]byte{{}})
	// --- oracle ---
	switch result.kind {
	case "none":
		if v.err != nil {
			c.Fail("rt-success-failed", op, v.err.Error(), "a successful handler outcome was reported to the client as an error")
			break
		}
		if len(v.msgs) != len(sends) {
			c.Fail("rt-messages", op, fmt.Sprint(len(v.msgs)), "the client did not receive the messages the handler sent")
		} else {
			for i := range sends {
				if !bytes.Equal(v.msgs[i], sends[i]) {
					c.Fail("rt-messages", op, hx(v.msgs[i]), "the client did not receive the messages the handler sent")
					break
				}
			}
		}
		if v.heldTrailerDiffers {
			c.Fail("rt-trailer-held-map", op, showHdr(fromHTTP(v.trailer)), "the trailer map the client obtained before draining the stream was not filled in when the stream ended")
		}
		zeroMsgs := len(sends) == 0
		if k, ok := subset(h, v.header); !ok && !zeroMsgs {
			c.Fail("rt-header-lost", op, k, "a response header set by the handler is not visible among the client's response headers")
		}
		if k, ok := subset(t, v.trailer); !ok && !zeroMsgs {
			c.Fail("rt-trailer-lost", op, k, "a response trailer set by the handler is not visible among the client's response trailers")
		}
		if zeroMsgs {
			both := http.Header{}
			for k, vs := range v.header {
				both[k] = append(both[k], vs...)
			}
			for k, vs := range v.trailer {
				both[k] = append(both[k], vs...)
			}
			if k, ok := subset(h, both); !ok {
				c.Fail("rt-header-lost", op, k, "a response header is visible neither among headers nor trailers")
			}
			if k, ok := subset(t, both); !ok {
				c.Fail("rt-trailer-lost", op, k, "a response trailer is visible neither among headers nor trailers")
			}
		}
	default:
		if v.err == nil {
			c.Fail("rt-error-as-success", op, "ok", "a handler error was delivered to the client as success")
			break
		}
		w, m, ok := errView(v.err)
		if !ok {
			c.Fail("rt-error-uncoded", op, v.err.Error(), "the client error cannot be inspected as a Connect error")
			break
		}
		if result.kind == "codedunenc" {
			// no promise about what the peer is told, except that it is a failure, after the
			// messages that were sent
			if len(v.msgs) != len(sends) && (kind == "server" || kind == "bidi") {
				c.Fail("rt-error-broken-detail-messages", op, fmt.Sprint(len(v.msgs)), "the messages sent before the error did not arrive")
			}
			break
		}
		var want *wireErr
		switch result.kind {
		case "codedunrend":
			want = result.w
			if proto == "connect" {
				// fix F38: code, message and metadata arrive, the details do not
				want = &wireErr{code: result.w.code, msg: result.w.msg}
			}
		case "coded", "codedctx", "codedwrap", "codedeof", "codedjoin", "codedas":
			want = result.w
		case "plain", "plaineof", "plaintmo":
			want = &wireErr{code: 2, msg: result.text}
		case "canceled":
			want = &wireErr{code: 1, msg: "context canceled"}
		case "deadline":
			want = &wireErr{code: 4, msg: "context deadline exceeded"}
		}
		if w.code != want.code {
			c.Fail("rt-error-code", op, strconv.Itoa(w.code), fmt.Sprintf("the client received code %d instead of %d", w.code, want.code))
		}
		if w.msg != want.msg {
			c.Fail("rt-error-message", op, hx([]byte(w.msg)), "the error message is not byte-identical: want "+hx([]byte(want.msg)))
		}
		if strings.Join(w.details, "\x00") != strings.Join(want.details, "\x00") {
			c.Fail("rt-error-details", op, fmt.Sprint(len(w.details)), "the error details are not equal in order")
		}
		if k, ok := subset(result.meta, http.Header(m)); !ok {
			c.Fail("rt-error-meta", op, k, "metadata attached to the error by the handler is missing from the client's error")
		}
		if k, ok := subset(h, http.Header(m)); !ok && (kind == "server" || kind == "bidi") {
			c.Fail("rt-error-header", op, k, "on failure the response headers must be at least in the error's metadata")
		}
		if k, ok := subset(t, http.Header(m)); !ok && (kind == "server" || kind == "bidi") {
			c.Fail("rt-error-trailer", op, k, "on failure the response trailers must be at least in the error's metadata")
		}
	}
	// --- model of the client on the same response ---
	enc, _ := encHeaderFor(proto, kind)
	r, note := canonicalResponse(proto, kind, rec.status, rec.header, rec.trailer, rec.body, enc)
	if note != "" && note != "empty-error-body" {
		return
	}
	cdecEmit(c, proto, kind, r, v)
}

func cdecLine(proto, kind string, r *sresp) string { return cdecLineMax(proto, kind, 0, r) }

func cdecLineMax(proto, kind string, max int, r *sresp) string {
	stext := strconv.Itoa(r.status) + " " + http.StatusText(r.status)
	return fmt.Sprintf("cdec proto=%s kind=%s accepts=gzip,rle max=%d stext=%s status=%d hdr=%s body=%s trl=%s",
		proto, kind, max, hx([]byte(stext)), r.status, showHdr(r.header), showBody(r.body), showHdr(r.trailer))
}

func cdecEmit(c *Ctx, proto, kind string, r *sresp, v clientView) {
	c.Count("cdec:" + proto + "/" + kind)
	c.Emit(cdecLine(proto, kind, r), showView(kind, v), true)
}

// cdecOp: run a crafted structured response through a real client (C06 oracle + model).
func cdecOp(c *Ctx, op string) {
	c.Begin(op)
	a := kvArgs(strings.Fields(op))
	proto, kind := a["proto"], a["kind"]
	r := &sresp{status: atoi(a["status"]), header: parseHdr(a["hdr"]), body: parseBody(a["body"]), trailer: parseHdr(a["trl"])}
	header, body, trailer := r.serialize(proto)
	var v clientView
	max := atoi(a["max"])
	ans := safely(func() string {
		// the transport behaves like net/http: HTTP trailers are filled in when the end of the body
		// is reported, not before
		sc := &shapedClient{status: r.status, header: header, trailer: trailer, body: body, shape: transportShape{chunk: 0, eofWithData: false}}
		v = callClient(proto, kind, sc, nil, [][]byte{{}}, connect.WithReadMaxBytes(max))
		return showView(kind, v)
	})
	// C03 at the protocol level: the same response delivered differently by the transport - in
	// small reads, end of body reported together with the last bytes or separately, HTTP trailers
	// only available once the end of the body was reported (as net/http does) - gives the same view
	if !strings.HasPrefix(ans, "PANIC") {
		for _, shape := range []transportShape{{chunk: 0, eofWithData: true}, {chunk: 3, eofWithData: false}, {chunk: 1, eofWithData: true}} {
			shape := shape
			alt := safely(func() string {
				sc := &shapedClient{status: r.status, header: header, trailer: trailer, body: body, shape: shape}
				return showView(kind, callClient(proto, kind, sc, nil, [][]byte{{}}, connect.WithReadMaxBytes(max)))
			})
			if alt != ans {
				c.Fail("seg-transport-shape", op, fmt.Sprintf("reads of %d bytes, EOF with data=%v: %s  |  one piece, EOF separately: %s", shape.chunk, shape.eofWithData, alt, ans), "the client's view of one and the same response depends on how the transport delivers it")
				break
			}
		}
	}
	// C06: a peer may announce trailers (Trailer: Grpc-Status, Grpc-Message, ...) and then not
	// send all of them: net/http leaves those keys in Response.Trailer with a nil slice. The
	// client must cope - no panic, a coded verdict (C06-me, re-examined in round 13: since F43 the
	// trailers are only consulted once the body has ended, so a key that is still nil then is one
	// that never arrived).
	if !strings.HasPrefix(ans, "PANIC") && proto != "connect" {
		alt := safely(func() string {
			sc := &shapedClient{status: r.status, header: header, trailer: trailer, body: body, shape: transportShape{chunk: 0, eofWithData: false},
				announce: []string{"Grpc-Status", "Grpc-Message", "Grpc-Status-Details-Bin", "X-Never-Sent"}}
			return showView(kind, callClient(proto, kind, sc, nil, [][]byte{{}}, connect.WithReadMaxBytes(max)))
		})
		if strings.HasPrefix(alt, "PANIC") {
			c.Fail("client-panic", op, alt, "the client panicked on a response that announces trailers it then does not send")
		}
	}
	// C09: nothing larger than the read limit reaches the application
	if max > 0 {
		for _, m := range v.msgs {
			if len(m) > max {
				c.Fail("limit-client-oversize-delivered", op, ans, fmt.Sprintf("the client delivered a %d-byte message although its read limit is %d", len(m), max))
			}
		}
	}
	// C04: success only if the protocol's terminator arrived
	if v.err == nil && r.status == 200 && !(proto == "connect" && kind == "unary") {
		term := false
		for _, it := range r.body {
			if (proto == "connect" && it.kind == "end") || (proto == "grpcweb" && it.kind == "web") {
				term = true
			}
		}
		if proto == "grpc" && len(r.trailer["Grpc-Status"]) > 0 {
			term = true
		}
		if proto != "connect" && len(r.header["Grpc-Status"]) > 0 {
			// the trailers-only form - of a response that then has no body to lose
			term = true
			for _, it := range r.body {
				if it.kind == "raw" || (it.kind == "f" && (it.flags != 0 || (len(it.data) > 0 && it.data[0] == 0xEE))) {
					term = false // a body the client cannot read to its end: nothing ends it
				}
			}
		}
		if !term {
			c.Fail("term-missing-success", op, ans, "the call was reported successful although the response carries no end-of-stream marker")
		}
	}
	// non-200 without a valid protocol-level error: the call fails, with the code the protocol's
	// HTTP-status table gives (tables restated here from the protocol documents)
	carriesError := false
	for _, it := range r.body {
		if (it.kind == "ej" || it.kind == "ejz") && it.err.code != 0 {
			carriesError = true
		}
	}
	if r.status != 200 && !strings.HasPrefix(ans, "PANIC") {
		if v.err == nil {
			c.Fail("client-non200-success", op, ans, "a non-200 response was reported as success")
		} else if w, _, ok := errView(v.err); ok && !carriesError {
			want := httpStatusCode(proto, r.status)
			if w.code != want {
				c.Fail("client-non200-code", op, ans, fmt.Sprintf("a non-200 response without a protocol-level error must get the code derived from the HTTP status (%d)", want))
			}
		}
	}
	// a conformant peer's error (plain or compressed with a negotiated algorithm) is decoded to
	// the same code and message
	if proto == "connect" && kind == "unary" && r.status != 200 && len(r.body) == 1 && (r.body[0].kind == "ej" || r.body[0].kind == "ejz") && r.body[0].err.code >= 1 && r.body[0].err.code <= 16 {
		enc := ""
		if e := r.header["Content-Encoding"]; len(e) > 0 {
			enc = e[0]
		}
		conformant := (r.body[0].kind == "ej" && (enc == "" || enc == "identity")) || (r.body[0].kind == "ejz" && (enc == "gzip" || enc == "rle"))
		if conformant && v.err != nil {
			if w, _, ok := errView(v.err); ok && (w.code != r.body[0].err.code || w.msg != r.body[0].err.msg) {
				c.Fail("peer-error-decoded", op, ans, "a conformant peer's error response was not decoded to the code and message it carries")
			}
		}
	}
	// end-of-stream metadata must be found under the canonical key whatever casing the peer used
	if v.err == nil && v.hasHT {
		for _, it := range r.body {
			if it.kind != "end" {
				continue
			}
			for k, vs := range it.header {
				got := v.trailer.Values(http.CanonicalHeaderKey(k))
				for _, want := range vs {
					found := false
					for _, g := range got {
						if g == want {
							found = true
						}
					}
					if !found {
						c.Fail("client-header-case", op, ans, "trailer sent as "+k+" is not found by a lookup of "+http.CanonicalHeaderKey(k))
					}
				}
			}
		}
	}
	if strings.HasPrefix(ans, "PANIC") {
		c.Fail("client-panic", op, ans, "the client panicked on a response")
	} else if v.err != nil {
		w, _, ok := errView(v.err)
		switch {
		case !ok:
			c.Fail("client-uncoded", op, v.err.Error(), "the client error cannot be inspected as a Connect error")
		case w.code == 0:
			c.Fail("client-zero-code", op, ans, "the client failed with the zero (OK) code")
		}
	}
	c.Count("cdec:" + proto + "/" + kind)
	c.Emit(op, ans, true)
}

// shapedClient answers with a fixed response whose body is delivered in reads of at most
// `chunk` bytes (0 = everything at once), reports the end of the body with the last bytes or
// separately, and - like net/http - fills in Response.Trailer only when it reports that end.
type transportShape struct {
	chunk       int
	eofWithData bool
}

type shapedClient struct {
	announce []string // trailer keys announced up front whether or not they arrive
	status   int
	header   http.Header
	trailer  http.Header
	body     []byte
	shape    transportShape
}

type shapedBody struct {
	data    []byte
	shape   transportShape
	res     *http.Response
	trailer http.Header
	done    bool
}

func (b *shapedBody) finish() {
	if !b.done {
		b.done = true
		for k, v := range b.trailer {
			b.res.Trailer[k] = append([]string(nil), v...)
		}
	}
}

func (b *shapedBody) Read(p []byte) (int, error) {
	if len(b.data) == 0 {
		b.finish()
		return 0, io.EOF
	}
	n := len(p)
	if b.shape.chunk > 0 && n > b.shape.chunk {
		n = b.shape.chunk
	}
	n = copy(p[:n], b.data)
	b.data = b.data[n:]
	if len(b.data) == 0 && b.shape.eofWithData {
		b.finish()
		return n, io.EOF
	}
	return n, nil
}
func (b *shapedBody) Close() error { return nil }

func (s *shapedClient) Do(req *http.Request) (*http.Response, error) {
	go func() { _, _ = io.Copy(io.Discard, req.Body); _ = req.Body.Close() }()
	h := s.header.Clone()
	if h == nil {
		h = http.Header{}
	}
	res := &http.Response{
		StatusCode: s.status, Status: strconv.Itoa(s.status) + " " + http.StatusText(s.status),
		Proto: "HTTP/2.0", ProtoMajor: 2, Header: h, Trailer: http.Header{}, Request: req,
	}
	// net/http announces the trailer keys up front (with nil values) and fills them in at EOF
	for k := range s.trailer {
		res.Trailer[k] = nil
	}
	// ... also keys the peer announced in its Trailer header and then never sends: they stay in
	// the map with a nil slice
	for _, k := range s.announce {
		if _, ok := res.Trailer[k]; !ok {
			res.Trailer[k] = nil
		}
	}
	res.Body = &shapedBody{data: append([]byte(nil), s.body...), shape: s.shape, res: res, trailer: s.trailer}
	return res, nil
}

// the HTTP-status → code tables of the Connect and gRPC protocol documents
func httpStatusCode(proto string, status int) int {
	if proto == "connect" {
		switch status {
		case 400:
			return 3
		case 401:
			return 16
		case 403:
			return 7
		case 404:
			return 12
		case 408:
			return 4
		case 412:
			return 9
		case 413, 431:
			return 8
		case 429, 502, 503, 504:
			return 14
		}
		return 2
	}
	switch status {
	case 400:
		return 13
	case 401:
		return 16
	case 403:
		return 7
	case 404:
		return 12
	case 429, 502, 503, 504:
		return 14
	}
	return 2
}

// failingBody delivers data and then fails (a response that promises more than it delivers).
type failingBody struct {
	data   []byte
	err    error
	before func() // runs once, right before the failure is reported
}

func (f *failingBody) Read(p []byte) (int, error) {
	if len(f.data) == 0 {
		if f.before != nil {
			f.before()
			f.before = nil
		}
		return 0, f.err
	}
	n := copy(p, f.data)
	f.data = f.data[n:]
	return n, nil
}
func (f *failingBody) Close() error { return nil }

type bodyClient struct {
	status int
	header http.Header
	body   io.ReadCloser
}

func (b *bodyClient) Do(req *http.Request) (*http.Response, error) {
	go func() { _, _ = io.Copy(io.Discard, req.Body); _ = req.Body.Close() }()
	return &http.Response{StatusCode: b.status, Status: strconv.Itoa(b.status), Proto: "HTTP/2.0", ProtoMajor: 2, Header: b.header, Body: b.body, Request: req}, nil
}

// extraProbes: oracle-only cases that the structured ops cannot express.
// tagIcpt adds one more value under a request header key, as a client interceptor may.
type tagIcpt struct{ key, value string }

func (i tagIcpt) WrapUnary(next connect.UnaryFunc) connect.UnaryFunc {
	return func(ctx context.Context, req connect.AnyRequest) (connect.AnyResponse, error) {
		if req.Spec().IsClient {
			req.Header().Add(i.key, i.value)
		}
		return next(ctx, req)
	}
}
func (i tagIcpt) WrapStreamingClient(next connect.StreamingClientFunc) connect.StreamingClientFunc {
	return func(ctx context.Context, spec connect.Spec) connect.StreamingClientConn {
		conn := next(ctx, spec)
		conn.RequestHeader().Add(i.key, i.value)
		return conn
	}
}
func (i tagIcpt) WrapStreamingHandler(next connect.StreamingHandlerFunc) connect.StreamingHandlerFunc {
	return next
}

// metadataProbes (C11, oracle only): (a) a handler whose first Send fails in the codec still gets
// its headers, trailers and the error's metadata to the client; (b) header values attached by the
// caller and by a client interceptor under one key all reach the handler, in every RPC kind.
func metadataProbes(c *Ctx) {
	for _, proto := range []string{"connect", "grpc", "grpcweb"} {
		for _, kind := range []string{"server", "bidi"} {
			impl := func(send func(*[]byte) error, rh, rt http.Header) error {
				rh.Add("X-H", "h1")
				rh.Add("X-H", "h2")
				rt.Add("X-T", "t1")
				rt.Add("X-T-Bin", connect.EncodeBinaryHeader([]byte{0, 1, 2}))
				_ = send(&[]byte{1}) // fails: the codec cannot marshal
				e := connect.NewError(connect.CodeDataLoss, errors.New("could not encode the response"))
				e.Meta().Add("X-Err", "e1")
				return e
			}
			var h http.Handler
			hopts := []connect.HandlerOption{connect.WithCodec(brokenMarshalCodec{rawCodec{"raw"}})}
			if kind == "server" {
				h = connect.NewServerStreamHandler("/s/m", func(ctx context.Context, r *connect.Request[[]byte], s *connect.ServerStream[[]byte]) error {
					return impl(s.Send, s.ResponseHeader(), s.ResponseTrailer())
				}, hopts...)
			} else {
				h = connect.NewBidiStreamHandler("/s/m", func(ctx context.Context, s *connect.BidiStream[[]byte, []byte]) error {
					for {
						if _, err := s.Receive(); err != nil {
							break
						}
					}
					return impl(s.Send, s.ResponseHeader(), s.ResponseTrailer())
				}, hopts...)
			}
			desc := fmt.Sprintf("%s %s handler sets headers and trailers, its first Send fails in the codec, it returns data_loss with metadata", proto, kind)
			got := safely(func() string {
				v := callClient(proto, kind, &inprocClient{h: h}, nil, [][]byte{{}})
				if v.err == nil {
					return "success"
				}
				var ce *connect.Error
				if !errors.As(v.err, &ce) {
					return "uncoded " + v.err.Error()
				}
				return fmt.Sprintf("code=%s X-H=%q X-T=%q X-T-Bin=%q X-Err=%q", ce.Code(), ce.Meta().Values("X-H"), ce.Meta().Values("X-T"), ce.Meta().Values("X-T-Bin"), ce.Meta().Values("X-Err"))
			})
			c.Count("meta-probe:failed-send")
			want := fmt.Sprintf("code=data_loss X-H=%q X-T=%q X-T-Bin=%q X-Err=%q", []string{"h1", "h2"}, []string{"t1"}, []string{connect.EncodeBinaryHeader([]byte{0, 1, 2})}, []string{"e1"})
			if got != want {
				c.Fail("rt-error-meta", desc, got, "on failure every header, trailer and error metadata value the handler set is in the error's metadata: want "+want)
			}
		}
		for _, kind := range []string{"unary", "client", "server", "bidi"} {
			var seen []string
			record := func(h http.Header) { seen = append([]string(nil), h.Values("X-Demo-Tag")...) }
			var h http.Handler
			raw := connect.WithCodec(rawCodec{"raw"})
			switch kind {
			case "unary":
				h = connect.NewUnaryHandler("/s/m", func(ctx context.Context, r *connect.Request[[]byte]) (*connect.Response[[]byte], error) {
					record(r.Header())
					return connect.NewResponse(&[]byte{1}), nil
				}, raw)
			case "client":
				h = connect.NewClientStreamHandler("/s/m", func(ctx context.Context, s *connect.ClientStream[[]byte]) (*connect.Response[[]byte], error) {
					record(s.RequestHeader())
					for s.Receive() {
					}
					return connect.NewResponse(&[]byte{1}), nil
				}, raw)
			case "server":
				h = connect.NewServerStreamHandler("/s/m", func(ctx context.Context, r *connect.Request[[]byte], s *connect.ServerStream[[]byte]) error {
					record(r.Header())
					return nil
				}, raw)
			default:
				h = connect.NewBidiStreamHandler("/s/m", func(ctx context.Context, s *connect.BidiStream[[]byte, []byte]) error {
					record(s.RequestHeader())
					for {
						if _, err := s.Receive(); err != nil {
							return nil
						}
					}
				}, raw)
			}
			desc := fmt.Sprintf("%s %s call: the caller attaches X-Demo-Tag twice, a client interceptor once more", proto, kind)
			_ = safely(func() string {
				_ = callClient(proto, kind, &inprocClient{h: h}, hdr{"X-Demo-Tag": {"caller-1", "caller-2"}}, [][]byte{{}}, connect.WithInterceptors(tagIcpt{"X-Demo-Tag", "interceptor"}))
				return ""
			})
			c.Count("meta-probe:interceptor-header")
			sort.Strings(seen)
			if strings.Join(seen, "|") != "caller-1|caller-2|interceptor" {
				c.Fail("rt-request-header-lost", desc, strings.Join(seen, "|"), "every value attached to the call under one key reaches the handler")
			}
		}
	}
}

// cancelAtEndProbe (C03 at the protocol level, with the caller's context in play): the caller
// takes every message of a server stream, cancels, and asks for the next one. What that Receive
// reports must not depend on whether the transport reported the end of the body together with
// the last bytes or on a read of its own.
func cancelAtEndProbe(c *Ctx) {
	for _, proto := range []string{"connect", "grpc", "grpcweb"} {
		for _, nmsg := range []int{1, 3} {
			var items []bodyItem
			for i := 0; i < nmsg; i++ {
				items = append(items, bodyItem{kind: "f", data: []byte{byte(i + 1), 7}})
			}
			r := &sresp{status: 200, header: hdr{"Content-Type": {ctFor(proto, "server", "raw")}}, body: items}
			switch proto {
			case "connect":
				r.body = append(r.body, bodyItem{kind: "end"})
			case "grpcweb":
				r.body = append(r.body, bodyItem{kind: "web", header: hdr{"Grpc-Status": {"0"}}})
			default:
				r.trailer = hdr{"Grpc-Status": {"0"}}
			}
			header, body, trailer := r.serialize(proto)
			run := func(shape transportShape) string {
				return safely(func() string {
					sc := &shapedClient{status: 200, header: header, trailer: trailer, body: body, shape: shape}
					opts := []connect.ClientOption{connect.WithCodec(rawCodec{"raw"})}
					if proto == "grpc" {
						opts = append(opts, connect.WithGRPC())
					} else if proto == "grpcweb" {
						opts = append(opts, connect.WithGRPCWeb())
					}
					cl := connect.NewClient[[]byte, []byte](sc, "http://h/s/m", opts...)
					ctx, cancel := context.WithCancel(context.Background())
					defer cancel()
					s, err := cl.CallServerStream(ctx, connect.NewRequest(&[]byte{}))
					if err != nil {
						return "call:" + err.Error()
					}
					defer s.Close()
					got := 0
					for got < nmsg && s.Receive() {
						got++
					}
					cancel()
					more := s.Receive()
					return fmt.Sprintf("got=%d more=%v err=%s", got, more, codeOrOK(s.Err()))
				})
			}
			base := run(transportShape{chunk: 0, eofWithData: false})
			for _, shape := range []transportShape{{chunk: 0, eofWithData: true}, {chunk: 2, eofWithData: true}, {chunk: 5, eofWithData: false}} {
				c.Count("probe-cancel-at-end")
				for trial := 0; trial < 5; trial++ {
					if alt := run(shape); alt != base {
						c.Fail("seg-cancel-shape", fmt.Sprintf("%s server stream, %d messages taken, context cancelled, Receive again", proto, nmsg),
							fmt.Sprintf("reads of %d bytes, EOF with data=%v: %s  |  one piece, EOF separately: %s", shape.chunk, shape.eofWithData, alt, base),
							"what the Receive after the last message reports depends on how the transport reports the end of the body")
						break
					}
				}
			}
		}
	}
}

// midStreamAccessorProbe (C03): what the accessors of a stream show *between* Receives - after
// the last message, before the Receive that finds the end - depends on the bytes received so
// far, not on whether the transport has already reported the end of the body with them.
func midStreamAccessorProbe(c *Ctx) {
	for _, proto := range []string{"connect", "grpc", "grpcweb"} {
		items := []bodyItem{{kind: "f", data: []byte{1, 7}}, {kind: "f", data: []byte{2, 7}}}
		r := &sresp{status: 200, header: hdr{"Content-Type": {ctFor(proto, "server", "raw")}, "X-H": {"h"}}, body: items}
		tr := hdr{"Grpc-Status": {"0"}, "Grpc-Message": {""}, "X-After": {"tail"}}
		switch proto {
		case "connect":
			r.body = append(r.body, bodyItem{kind: "end", header: hdr{"X-After": {"tail"}}})
		case "grpcweb":
			r.body = append(r.body, bodyItem{kind: "web", header: tr})
		default:
			r.trailer = tr
		}
		header, body, trailer := r.serialize(proto)
		run := func(shape transportShape) string {
			return safely(func() string {
				sc := &shapedClient{status: 200, header: header, trailer: trailer, body: body, shape: shape}
				opts := []connect.ClientOption{connect.WithCodec(rawCodec{"raw"})}
				if proto == "grpc" {
					opts = append(opts, connect.WithGRPC())
				} else if proto == "grpcweb" {
					opts = append(opts, connect.WithGRPCWeb())
				}
				cl := connect.NewClient[[]byte, []byte](sc, "http://h/s/m", opts...)
				st, err := cl.CallServerStream(context.Background(), connect.NewRequest(&[]byte{}))
				if err != nil {
					return "call:" + err.Error()
				}
				defer st.Close()
				var obs []string
				look := func() {
					var keys []string
					for k, v := range st.ResponseTrailer() {
						keys = append(keys, k+"="+strings.Join(v, ","))
					}
					sort.Strings(keys)
					obs = append(obs, fmt.Sprintf("trailer{%s} header X-H=%s", strings.Join(keys, ";"), st.ResponseHeader().Get("X-H")))
				}
				for i := 0; i < 2 && st.Receive(); i++ {
					look()
				}
				more := st.Receive()
				look()
				return fmt.Sprintf("%s more=%v err=%s", strings.Join(obs, " | "), more, codeOrOK(st.Err()))
			})
		}
		base := run(transportShape{chunk: 0, eofWithData: false})
		for _, shape := range []transportShape{{chunk: 0, eofWithData: true}, {chunk: 1, eofWithData: true}, {chunk: 4, eofWithData: false}} {
			c.Count("probe-midstream-accessors")
			if alt := run(shape); alt != base {
				c.Fail("seg-transport-shape", proto+" server stream, ResponseTrailer()/ResponseHeader() read after each message and after the end",
					fmt.Sprintf("reads of %d bytes, EOF with data=%v: %s  |  one piece, EOF separately: %s", shape.chunk, shape.eofWithData, alt, base),
					"what the accessors show between Receives depends on how the transport reports the end of the body")
			}
		}
	}
}

func codeOrOK(err error) string {
	if err == nil {
		return "none"
	}
	return connect.CodeOf(err).String()
}

// unconvertibleDetail is an ErrorDetail that is not an *anypb.Any and cannot be made into one
// (its string field is not valid UTF-8): the library then reports an internal error whose
// message quotes the detail - text the application controls.
type unconvertibleDetail struct{ *wrapperspb.StringValue }

func (d unconvertibleDetail) MessageName() protoreflect.FullName {
	return d.ProtoReflect().Descriptor().FullName()
}
func (d unconvertibleDetail) UnmarshalTo(proto.Message) error { return errors.New("not supported") }

// unconvertibleDetailProbe (C18, oracle only): also on this path whatever goes into
// Grpc-Message is percent-encoded: printable ASCII on the wire, and the peer reads back the
// bytes that went in (a literal '%' stays a '%').
func unconvertibleDetailProbe(c *Ctx) {
	const marker = "disk 100%41 used, 5%2f6 \u00e9"
	for _, proto := range []string{"grpc", "grpcweb"} {
		for _, kind := range []string{"unary", "server"} {
			fail := func() error {
				e := connect.NewError(connect.CodeResourceExhausted, errors.New("over quota"))
				e.AddDetail(unconvertibleDetail{&wrapperspb.StringValue{Value: "\xff " + marker}})
				return e
			}
			var h *connect.Handler
			if kind == "unary" {
				h = connect.NewUnaryHandler("/s/m", func(ctx context.Context, r *connect.Request[[]byte]) (*connect.Response[[]byte], error) {
					return nil, fail()
				}, connect.WithCodec(rawCodec{"raw"}))
			} else {
				h = connect.NewServerStreamHandler("/s/m", func(ctx context.Context, r *connect.Request[[]byte], s *connect.ServerStream[[]byte]) error {
					_ = s.Send(&[]byte{1})
					return fail()
				}, connect.WithCodec(rawCodec{"raw"}))
			}
			desc := fmt.Sprintf("%s %s handler fails with an error detail that cannot be converted to an Any and quotes %q", proto, kind, marker)
			c.Count("probe-unconvertible-detail")
			got := safely(func() string {
				rec := serveReal(proto, kind, false, h)
				var msgs []string
				msgs = append(msgs, rec.header["Grpc-Message"]...)
				msgs = append(msgs, rec.trailer["Grpc-Message"]...)
				if proto == "grpcweb" { // the trailer block in the body
					for _, line := range strings.Split(string(rec.body), "\r\n") {
						if i := strings.Index(strings.ToLower(line), "grpc-message:"); i >= 0 {
							msgs = append(msgs, strings.TrimSpace(line[i+len("grpc-message:"):]))
						}
					}
				}
				if len(msgs) != 1 {
					return fmt.Sprintf("%d Grpc-Message values on the wire", len(msgs))
				}
				for i := 0; i < len(msgs[0]); i++ {
					if msgs[0][i] < 0x20 || msgs[0][i] > 0x7e {
						return fmt.Sprintf("unprintable byte in Grpc-Message %q", msgs[0])
					}
				}
				// independent decoder: %XX -> byte
				var dec []byte
				for i := 0; i < len(msgs[0]); i++ {
					if msgs[0][i] == '%' && i+2 < len(msgs[0]) {
						var b byte
						if _, err := fmt.Sscanf(msgs[0][i+1:i+3], "%02X", &b); err == nil {
							dec = append(dec, b)
							i += 2
							continue
						}
					}
					dec = append(dec, msgs[0][i])
				}
				if !strings.Contains(string(dec), marker) {
					return fmt.Sprintf("Grpc-Message %q decodes to %q", msgs[0], dec)
				}
				return "ok"
			})
			if got != "ok" {
				c.Fail("wire-grpc-message-unencoded", desc, got, "the text does not travel percent-encoded: the peer cannot read back what went in")
			}
		}
	}
}

// forwardedErrorProbes (C11/C02, oracle only): a gateway handler calls a backend through a
// connect client, adds its own metadata to the error it got back and returns that error: the
// caller sees the handler's additions (single, repeated and -Bin values) next to the backend's,
// in every protocol on both hops.
func forwardedErrorProbes(c *Ctx) {
	for _, proto := range []string{"connect", "grpc", "grpcweb"} {
		for _, kind := range []string{"unary", "server"} {
			desc := fmt.Sprintf("%s %s call to a gateway handler that returns the (wire) error of its own backend call with metadata added", proto, kind)
			c.Count("probe-forwarded-error")
			got := safely(func() string {
				backend := connect.NewUnaryHandler("/b/m", func(ctx context.Context, r *connect.Request[[]byte]) (*connect.Response[[]byte], error) {
					e := connect.NewError(connect.CodePermissionDenied, errors.New("backend says no"))
					e.Meta().Set("X-Backend", "b")
					return nil, e
				}, connect.WithCodec(rawCodec{"raw"}))
				copts := func() []connect.ClientOption {
					o := []connect.ClientOption{connect.WithCodec(rawCodec{"raw"})}
					if proto == "grpc" {
						o = append(o, connect.WithGRPC())
					} else if proto == "grpcweb" {
						o = append(o, connect.WithGRPCWeb())
					}
					return o
				}
				down := connect.NewClient[[]byte, []byte](&inprocClient{h: backend}, "http://h/b/m", copts()...)
				forward := func(ctx context.Context) error {
					_, err := down.CallUnary(ctx, connect.NewRequest(&[]byte{1}))
					var ce *connect.Error
					if !errors.As(err, &ce) {
						return connect.NewError(connect.CodeInternal, errors.New("backend call did not fail as arranged"))
					}
					ce.Meta().Set("X-Gateway", "g")
					ce.Meta().Add("X-Gateway-Multi", "one")
					ce.Meta().Add("X-Gateway-Multi", "two")
					ce.Meta().Set("X-Gateway-Bin", connect.EncodeBinaryHeader([]byte{0, 255, 7}))
					return ce
				}
				var gw *connect.Handler
				if kind == "unary" {
					gw = connect.NewUnaryHandler("/s/m", func(ctx context.Context, r *connect.Request[[]byte]) (*connect.Response[[]byte], error) {
						return nil, forward(ctx)
					}, connect.WithCodec(rawCodec{"raw"}))
				} else {
					gw = connect.NewServerStreamHandler("/s/m", func(ctx context.Context, r *connect.Request[[]byte], s *connect.ServerStream[[]byte]) error {
						_ = s.Send(&[]byte{1})
						return forward(ctx)
					}, connect.WithCodec(rawCodec{"raw"}))
				}
				v := callClient2(proto, kind, &inprocClient{h: gw}, copts(), []byte{1})
				var ce *connect.Error
				if !errors.As(v.err, &ce) || ce.Code() != connect.CodePermissionDenied {
					return fmt.Sprintf("outcome: %v", v.err)
				}
				for k, want := range map[string]string{"X-Backend": "b", "X-Gateway": "g", "X-Gateway-Multi": "one,two", "X-Gateway-Bin": connect.EncodeBinaryHeader([]byte{0, 255, 7})} {
					if g := strings.Join(ce.Meta().Values(k), ","); g != want {
						return fmt.Sprintf("%s arrived as %q, want %q", k, g, want)
					}
				}
				return "ok"
			})
			if got != "ok" {
				c.Fail("rt-error-meta-forwarded", desc, got, "metadata the handler attached to the error it returns did not reach the client")
			}
		}
	}
}

// sharedKeyProbes (C11/C02, oracle only): a handler sets a response trailer and returns an error
// whose metadata uses the SAME name: both values arrive, through real HTTP, in every protocol,
// with and without messages sent first.
func sharedKeyProbes(c *Ctx) {
	for _, proto := range []string{"connect", "grpc", "grpcweb"} {
		for _, kind := range []string{"server", "bidi"} {
			for _, nsend := range []int{0, 2} {
				desc := fmt.Sprintf("%s %s stream, %d messages, then an error whose metadata has X-Tag while the response trailers have X-Tag too", proto, kind, nsend)
				c.Count("probe-shared-key")
				got := safely(func() string {
					finish := func(tr http.Header, send func(*[]byte) error) error {
						tr.Add("X-Tag", "from-trailer")
						tr.Add("X-Only-Trailer", "t")
						for i := 0; i < nsend; i++ {
							_ = send(&[]byte{1})
						}
						e := connect.NewError(connect.CodeAborted, errors.New("stop"))
						e.Meta().Add("X-Tag", "from-error")
						e.Meta().Add("X-Only-Error", "e")
						return e
					}
					var h *connect.Handler
					if kind == "server" {
						h = connect.NewServerStreamHandler("/s/m", func(ctx context.Context, r *connect.Request[[]byte], s *connect.ServerStream[[]byte]) error {
							return finish(s.ResponseTrailer(), s.Send)
						}, connect.WithCodec(rawCodec{"raw"}))
					} else {
						h = connect.NewBidiStreamHandler("/s/m", func(ctx context.Context, s *connect.BidiStream[[]byte, []byte]) error {
							return finish(s.ResponseTrailer(), s.Send)
						}, connect.WithCodec(rawCodec{"raw"}))
					}
					srv := httptest.NewUnstartedServer(h)
					srv.EnableHTTP2 = true
					srv.StartTLS()
					defer srv.Close()
					opts := []connect.ClientOption{connect.WithCodec(rawCodec{"raw"})}
					if proto == "grpc" {
						opts = append(opts, connect.WithGRPC())
					} else if proto == "grpcweb" {
						opts = append(opts, connect.WithGRPCWeb())
					}
					cl := connect.NewClient[[]byte, []byte](srv.Client(), srv.URL+"/s/m", opts...)
					var err error
					if kind == "server" {
						st, cerr := cl.CallServerStream(context.Background(), connect.NewRequest(&[]byte{1}))
						if cerr != nil {
							return "call: " + cerr.Error()
						}
						for st.Receive() {
						}
						err = st.Err()
						defer st.Close()
					} else {
						st := cl.CallBidiStream(context.Background())
						_ = st.Send(&[]byte{1})
						_ = st.CloseRequest()
						for err == nil {
							_, err = st.Receive()
						}
						defer st.CloseResponse()
					}
					var ce *connect.Error
					if !errors.As(err, &ce) || ce.Code() != connect.CodeAborted {
						return fmt.Sprintf("not the handler's error: %v", err)
					}
					for k, w := range map[string]string{"X-Tag": "from-error,from-trailer", "X-Only-Trailer": "t", "X-Only-Error": "e"} {
						g := append([]string(nil), ce.Meta().Values(k)...)
						sort.Strings(g)
						if strings.Join(g, ",") != w {
							return fmt.Sprintf("%s arrived as %v, want %s (any order)", k, ce.Meta().Values(k), w)
						}
					}
					return "ok"
				})
				if got != "ok" {
					c.Fail("rt-error-meta-shared-key", desc, got, "a value the handler attached to its error (or set as a trailer) did not reach the client")
				}
			}
		}
	}
}

// sharedBackingProbe (C11, F41): the trailer values a handler sets are the handler's slices. Two
// keys whose values are parts of one array (the halves of a strings.Split, say), and an error
// whose metadata has one of those keys: the library must merge into a copy - appending to the
// handler's own slice overwrites the neighbouring key's value, and the client sees a trailer
// value the handler never set under that key.
func sharedBackingProbe(c *Ctx) {
	for _, proto := range []string{"connect", "grpc", "grpcweb"} {
		for _, nsend := range []int{0, 1} {
			desc := fmt.Sprintf("%s server stream, %d message(s), trailers X-A and X-B set to the two halves of one slice, then an error whose metadata has X-A", proto, nsend)
			c.Count("probe-shared-backing")
			got := safely(func() string {
				h := connect.NewServerStreamHandler("/s/m", func(ctx context.Context, r *connect.Request[[]byte], s *connect.ServerStream[[]byte]) error {
					vals := strings.Split("a,b", ",")
					s.ResponseTrailer()["X-A"] = vals[:1]
					s.ResponseTrailer()["X-B"] = vals[1:]
					for i := 0; i < nsend; i++ {
						_ = s.Send(&[]byte{1})
					}
					e := connect.NewError(connect.CodeAborted, errors.New("stop"))
					e.Meta()["X-A"] = []string{"m"}
					return e
				}, connect.WithCodec(rawCodec{"raw"}))
				rec := serveReal(proto, "server", false, h)
				hc := &staticClient{status: rec.status, header: rec.header, trailer: rec.trailer, body: rec.body}
				cl := connect.NewClient[[]byte, []byte](hc, "http://h/s/m", append(protoOpts(proto), connect.WithCodec(rawCodec{"raw"}))...)
				st, err := cl.CallServerStream(context.Background(), connect.NewRequest(&[]byte{1}))
				if err != nil {
					return "call: " + err.Error()
				}
				defer st.Close()
				for st.Receive() {
				}
				var ce *connect.Error
				if !errors.As(st.Err(), &ce) || ce.Code() != connect.CodeAborted {
					return fmt.Sprintf("not the handler's error: %v", st.Err())
				}
				if g := strings.Join(ce.Meta().Values("X-B"), ","); g != "b" {
					return fmt.Sprintf("X-B arrived as %q, the handler set \"b\"", g)
				}
				ga := append([]string(nil), ce.Meta().Values("X-A")...)
				sort.Strings(ga)
				if g := strings.Join(ga, ","); g != "a,m" {
					return fmt.Sprintf("X-A arrived as %q, want a and m", g)
				}
				return "ok"
			})
			if got != "ok" {
				c.Fail("rt-trailer-shared-backing", desc, got, "a trailer value the handler set arrived changed")
			}
		}
	}
}

// requestWireProbes (C05, request direction, oracle only): what a client writes is decodable by
// an independent reader that goes by the labels alone: a body or envelope is compressed exactly
// if it is labelled so, a label names an algorithm only if something is compressed with it
// (unary Connect: the body; streams: announced for the envelopes that carry the flag), and what
// is decoded is the message the application sent - for message sizes on both sides of
// compress-min-bytes, first and later messages.
func requestWireProbes(c *Ctx) {
	for _, proto := range []string{"connect", "grpc", "grpcweb"} {
		for _, kind := range []string{"unary", "client"} {
			for _, min := range []int{0, 256} {
				for _, sizes := range [][]int{{10}, {300}, {10, 300, 10}, {11}} {
					if kind == "unary" && len(sizes) > 1 {
						continue
					}
					reuse := sizes[0] == 11 // the Request value was used for a larger message before
					if reuse && kind != "unary" {
						continue
					}
					desc := fmt.Sprintf("%s %s request, send compression rle, compress-min-bytes %d, message sizes %v", proto, kind, min, sizes)
					if reuse {
						desc += " (the Request value carried a 300-byte message in an earlier call)"
					}
					c.Count("probe-request-wire")
					got := safely(func() string {
						cap := &bodyCapture{}
						opts := []connect.ClientOption{connect.WithCodec(rawCodec{"raw"}), connect.WithCompressMinBytes(min),
							connect.WithAcceptCompression("rle", newRLEDecompressor, newRLECompressor), connect.WithSendCompression("rle")}
						if proto == "grpc" {
							opts = append(opts, connect.WithGRPC())
						} else if proto == "grpcweb" {
							opts = append(opts, connect.WithGRPCWeb())
						}
						cl := connect.NewClient[[]byte, []byte](cap, "http://h/s/m", opts...)
						var msgs [][]byte
						for i, n := range sizes {
							msgs = append(msgs, bytes.Repeat([]byte{byte(65 + i)}, n))
						}
						if kind == "unary" && reuse {
							// one Request value: a 300-byte message first, then this one
							first := bytes.Repeat([]byte{90}, 300)
							req := connect.NewRequest(&first)
							_, _ = cl.CallUnary(context.Background(), req)
							*req.Msg = msgs[0]
							_, _ = cl.CallUnary(context.Background(), req)
						} else if kind == "unary" {
							_, _ = cl.CallUnary(context.Background(), connect.NewRequest(&msgs[0]))
						} else {
							st := cl.CallClientStream(context.Background())
							for i := range msgs {
								_ = st.Send(&msgs[i])
							}
							_, _ = st.CloseAndReceive()
						}
						cap.mu.Lock()
						defer cap.mu.Unlock()
						if cap.header == nil {
							return "no request was made"
						}
						encH, _ := encHeaderFor(proto, kind)
						label := cap.header.Get(encH)
						named := label != "" && label != "identity"
						if named && label != "rle" {
							return "request names an encoding the client was not told to use: " + label
						}
						if proto == "connect" && kind == "unary" {
							body := cap.body
							if named {
								out, ok := rleExpand(body, 1<<20)
								if !ok {
									return fmt.Sprintf("%s: %s but the body is not rle data", encH, label)
								}
								body = out
							}
							if !bytes.Equal(body, msgs[0]) {
								return fmt.Sprintf("the body decodes (by its label %q) to %d bytes, not to the %d-byte message", label, len(body), len(msgs[0]))
							}
							return "ok"
						}
						rest, i := cap.body, 0
						for len(rest) >= 5 {
							n := int(rest[1])<<24 | int(rest[2])<<16 | int(rest[3])<<8 | int(rest[4])
							if len(rest) < 5+n {
								return "truncated envelope"
							}
							payload := rest[5 : 5+n]
							if rest[0]&1 != 0 {
								if !named {
									return fmt.Sprintf("envelope %d is flagged compressed but %s names no algorithm", i, encH)
								}
								out, ok := rleExpand(payload, 1<<20)
								if !ok {
									return fmt.Sprintf("envelope %d is flagged compressed but is not rle data", i)
								}
								payload = out
							}
							if i >= len(msgs) || !bytes.Equal(payload, msgs[i]) {
								return fmt.Sprintf("envelope %d does not decode to message %d", i, i)
							}
							rest, i = rest[5+n:], i+1
						}
						if i != len(msgs) || len(rest) != 0 {
							return fmt.Sprintf("%d of %d messages on the wire, %d stray bytes", i, len(msgs), len(rest))
						}
						return "ok"
					})
					if got != "ok" {
						c.Fail("wire-request-undecodable", desc, got, "an independent reader going by the request's labels does not recover the messages the application sent")
					}
				}
			}
		}
	}
}

// truncatedErrorBodyProbes (C06, oracle only): a non-200 response whose body stops before its
// framing does (Content-Length longer than the body, a chunked body without its last chunk)
// carries no valid protocol-level error: the code comes from the HTTP status, in every
// protocol and RPC kind, whatever error the body read ends with.
func truncatedErrorBodyProbes(c *Ctx) {
	for _, proto := range []string{"connect", "grpc", "grpcweb"} {
		for _, kind := range []string{"unary", "server"} {
			for _, status := range []int{401, 403, 404, 429, 503} {
				for _, tail := range []error{io.ErrUnexpectedEOF, errTransport} {
					for _, body := range []string{"", `{"code":"not_fo`, "<html>upstream"} {
						desc := fmt.Sprintf("%s %s call answered %d with Content-Type application/json, body %q then %v", proto, kind, status, body, tail)
						c.Count("probe-truncated-error-body")
						got := safely(func() string {
							bc := &bodyClient{status: status, header: http.Header{"Content-Type": {"application/json"}}, body: &failingBody{data: []byte(body), err: tail}}
							v := callClient(proto, kind, bc, nil, [][]byte{{1}})
							if v.err == nil {
								return "success"
							}
							w, _, ok := errView(v.err)
							if !ok {
								return "uncoded: " + v.err.Error()
							}
							return strconv.Itoa(w.code)
						})
						if want := strconv.Itoa(httpStatusCode(proto, status)); got != want {
							c.Fail("client-http-status-code", desc, got, "a non-200 response without a valid protocol-level error takes its code from the HTTP status: want "+want)
						}
					}
				}
			}
		}
	}
}

// terminatorLostProbes (C04, oracle only):
//
//	(a) the peer goes away without answering and the transport says so with an error that is, or
//	    wraps, io.EOF (net/http: `Post "...": EOF`): no API reports the clean end of a stream -
//	    nothing it returns satisfies errors.Is(err, io.EOF), Err() is not nil;
//	(b) a stream that was cut (one message, no terminator) stays failed: Err() after Close()
//	    is what it was before.
func terminatorLostProbes(c *Ctx) {
	for _, proto := range []string{"connect", "grpc", "grpcweb"} {
		opts := func() []connect.ClientOption {
			o := []connect.ClientOption{connect.WithCodec(rawCodec{"raw"})}
			if proto == "grpc" {
				o = append(o, connect.WithGRPC())
			} else if proto == "grpcweb" {
				o = append(o, connect.WithGRPCWeb())
			}
			return o
		}
		for _, te := range []error{io.EOF, &url.Error{Op: "Post", URL: "http://h/s/m", Err: io.EOF}, io.ErrUnexpectedEOF, fmt.Errorf("read: %w", io.EOF)} {
			for _, kind := range []string{"server", "client", "bidi"} {
				desc := fmt.Sprintf("%s %s call, the transport's Do fails with %q (%T)", proto, kind, te.Error(), te)
				c.Count("probe-transport-eof")
				got := safely(func() string {
					cl := connect.NewClient[[]byte, []byte](noReadFailingDo{te}, "http://h/s/m", opts()...)
					var err error
					switch kind {
					case "server":
						st, cerr := cl.CallServerStream(context.Background(), connect.NewRequest(&[]byte{1}))
						if cerr != nil {
							err = cerr
							break
						}
						for st.Receive() {
						}
						err = st.Err()
						_ = st.Close()
						if err == nil {
							return "Err() is nil: the stream is reported to have ended cleanly"
						}
					case "client":
						st := cl.CallClientStream(context.Background())
						_ = st.Send(&[]byte{1})
						_, err = st.CloseAndReceive()
					default:
						st := cl.CallBidiStream(context.Background())
						_ = st.Send(&[]byte{1})
						_ = st.CloseRequest()
						_, err = st.Receive()
						_ = st.CloseResponse()
					}
					if err == nil {
						return "success"
					}
					if errors.Is(err, io.EOF) {
						return "the error wraps io.EOF, the documented sign of a clean end: " + err.Error()
					}
					return "ok"
				})
				if got != "ok" {
					c.Fail("term-transport-eof-clean", desc, got, "no terminator (not even a response) arrived, yet the call reports the clean end of the stream")
				}
			}
		}
		// (b)
		desc := proto + " server stream cut after one message (no terminator): Receive until false, Err(), Close(), Err()"
		c.Count("probe-err-after-close")
		got := safely(func() string {
			sc := &shapedClient{status: 200, header: http.Header{"Content-Type": {ctFor(proto, "server", "raw")}}, body: frame(0, []byte{1, 2}), shape: transportShape{}}
			cl := connect.NewClient[[]byte, []byte](sc, "http://h/s/m", opts()...)
			st, err := cl.CallServerStream(context.Background(), connect.NewRequest(&[]byte{1}))
			if err != nil {
				return "ok" // failed even earlier
			}
			for st.Receive() {
			}
			before := st.Err()
			_ = st.Close()
			after := st.Err()
			if before == nil {
				return "Err() is nil although no terminator arrived"
			}
			if after == nil || connect.CodeOf(after) != connect.CodeOf(before) {
				return fmt.Sprintf("Err() was %q before Close() and is %v after", before.Error(), after)
			}
			return "ok"
		})
		if got != "ok" {
			c.Fail("term-missing-success", desc, got, "a stream without terminator is reported failed, and stays so")
		}
	}
}

// unserializableErrorProbe (C18, oracle only): a unary Connect handler fails with an error that
// cannot be written as JSON (a detail whose type this binary does not know - a forwarding
// handler passes such Anys on): whatever the body says, the HTTP status is an error status in
// 400..599 - never 200 - for every code value, and a client sees a failure.
func unserializableErrorProbe(c *Ctx) {
	for _, code := range []connect.Code{connect.CodeNotFound, connect.CodeUnauthenticated, connect.CodeCanceled, connect.Code(17), connect.Code(4294967295), connect.Code(0), connect.CodeAborted} {
		desc := fmt.Sprintf("unary Connect handler returns code %d with a detail of a type unknown to this binary", uint32(code))
		if code == connect.CodeAborted {
			desc = "unary Connect handler returns aborted with a detail of the application's own type that cannot be encoded (a string field that is not UTF-8)"
		}
		c.Count("probe-unserializable-error")
		got := safely(func() string {
			h := connect.NewUnaryHandler("/s/m", func(ctx context.Context, r *connect.Request[[]byte]) (*connect.Response[[]byte], error) {
				e := connect.NewError(code, errors.New("upstream says no"))
				if code == connect.CodeAborted {
					e.AddDetail(&countingDetail{&wrapperspb.StringValue{Value: "bad \xff bytes"}})
				} else {
					e.AddDetail(&anypb.Any{TypeUrl: "type.googleapis.com/acme.v9.NotLinkedIn", Value: []byte{8, 1}})
				}
				return nil, e
			}, connect.WithCodec(rawCodec{"raw"}))
			rec := serveReal("connect", "unary", false, h)
			cl := connect.NewClient[[]byte, []byte](&staticClient{status: rec.status, header: rec.header, body: rec.body}, "http://h/s/m", connect.WithCodec(rawCodec{"raw"}))
			_, err := cl.CallUnary(context.Background(), connect.NewRequest(&[]byte{1}))
			return fmt.Sprintf("status=%d client-sees-error=%v", rec.status, err != nil)
		})
		var status int
		var sees bool
		_, _ = fmt.Sscanf(got, "status=%d client-sees-error=%t", &status, &sees)
		if status < 400 || status > 599 || !sees {
			c.Fail("http-error-status-not-error", desc, got, "a handler error maps to an HTTP status in 400..599 and never reaches the peer as success")
		}
	}
}

// brokenDetailProbe (C02, oracle only): "an error is never delivered as success" holds whatever
// the error carries - also a detail that cannot be encoded (anypb.New fails on a string field
// that is not UTF-8) or cannot be rendered (an Any of a type this binary does not know). What
// code the client sees then is the library's business; that it sees a failure, and every message
// sent before it, is not.
func brokenDetailProbe(c *Ctx) {
	for _, proto := range []string{"connect", "grpc", "grpcweb"} {
		for _, kind := range []string{"unary", "server"} {
			for _, before := range []int{0, 1, 2} {
				if kind == "unary" && before > 0 {
					continue
				}
				for _, broken := range []string{"unencodable", "unrenderable"} {
					desc := fmt.Sprintf("%s %s handler sends %d message(s), then fails with aborted and an %s detail", proto, kind, before, broken)
					c.Count("probe-broken-detail")
					got := safely(func() string {
						mk := func() error {
							e := connect.NewError(connect.CodeAborted, errors.New("upstream says no"))
							if broken == "unencodable" {
								e.AddDetail(&countingDetail{&wrapperspb.StringValue{Value: "bad \xff bytes"}})
							} else {
								e.AddDetail(&anypb.Any{TypeUrl: "type.googleapis.com/acme.v9.NotLinkedIn", Value: []byte{8, 1}})
							}
							return e
						}
						var h *connect.Handler
						if kind == "unary" {
							h = connect.NewUnaryHandler("/s/m", func(ctx context.Context, r *connect.Request[[]byte]) (*connect.Response[[]byte], error) {
								return nil, mk()
							}, connect.WithCodec(rawCodec{"raw"}))
						} else {
							h = connect.NewServerStreamHandler("/s/m", func(ctx context.Context, r *connect.Request[[]byte], s *connect.ServerStream[[]byte]) error {
								for i := 0; i < before; i++ {
									if err := s.Send(&[]byte{byte(i + 1)}); err != nil {
										return err
									}
								}
								return mk()
							}, connect.WithCodec(rawCodec{"raw"}))
						}
						rec := serveReal(proto, kind, false, h)
						hc := &staticClient{status: rec.status, header: rec.header, trailer: rec.trailer, body: rec.body}
						cl := connect.NewClient[[]byte, []byte](hc, "http://h/s/m", append(protoOpts(proto), connect.WithCodec(rawCodec{"raw"}))...)
						if kind == "unary" {
							_, err := cl.CallUnary(context.Background(), connect.NewRequest(&[]byte{1}))
							return fmt.Sprintf("msgs=0 failed=%v", err != nil)
						}
						st, err := cl.CallServerStream(context.Background(), connect.NewRequest(&[]byte{1}))
						if err != nil {
							return "msgs=0 failed=true"
						}
						defer st.Close()
						n := 0
						for st.Receive() {
							n++
						}
						return fmt.Sprintf("msgs=%d failed=%v", n, st.Err() != nil)
					})
					if got != fmt.Sprintf("msgs=%d failed=true", before) {
						c.Fail("rt-error-as-success-broken-detail", desc, got, "an error is never delivered as success, and the messages sent before it arrive")
					}
				}
			}
		}
	}
}

// foreignDetailProbe (C05 converse / C06, F40, oracle only): a conformant Connect error whose
// details include a message type this client's binary does not know (another service's own
// error-detail type). The client cannot give the application that detail - but the response
// carries a valid protocol-level error, and its code and message are the call's outcome: not the
// code derived from the HTTP status, not "internal".
func foreignDetailProbe(c *Ctx) {
	body := `{"code":"permission_denied","message":"no","details":[{"@type":"type.googleapis.com/acme.v9.NotLinkedIn","x":1}]}`
	for _, kind := range []string{"unary", "server"} {
		for _, status := range []int{404, 403, 500} {
			if kind == "server" && status != 404 {
				continue
			}
			desc := fmt.Sprintf("Connect %s call, a peer answers with a well-formed permission_denied error (HTTP %d) that has a detail of a type unknown to this binary", kind, status)
			c.Count("probe-foreign-detail")
			got := safely(func() string {
				var hc connect.HTTPClient
				if kind == "unary" {
					hc = &staticClient{status: status, header: http.Header{"Content-Type": {"application/json"}}, body: []byte(body)}
				} else {
					end := []byte(`{"error":` + body + `,"metadata":{"X-T":["1"]}}`)
					hc = &staticClient{status: 200, header: http.Header{"Content-Type": {"application/connect+raw"}}, body: append(frame(0, []byte{1}), frame(2, end)...)}
				}
				cl := connect.NewClient[[]byte, []byte](hc, "http://h/s/m", connect.WithCodec(rawCodec{"raw"}))
				var err error
				if kind == "unary" {
					_, err = cl.CallUnary(context.Background(), connect.NewRequest(&[]byte{1}))
				} else {
					st, cerr := cl.CallServerStream(context.Background(), connect.NewRequest(&[]byte{1}))
					if cerr != nil {
						return "call: " + cerr.Error()
					}
					defer st.Close()
					for st.Receive() {
					}
					err = st.Err()
				}
				var ce *connect.Error
				if !errors.As(err, &ce) {
					return fmt.Sprintf("not a coded error: %v", err)
				}
				return fmt.Sprintf("%s/%s", ce.Code(), ce.Message())
			})
			if got != "permission_denied/no" {
				c.Fail("peer-error-foreign-detail", desc, got, "the peer's error - code permission_denied, message \"no\" - is the outcome of the call")
				c.Fail("client-error-foreign-detail", desc, got, "the peer's error - code permission_denied, message \"no\" - is the outcome of the call")
			}
		}
	}
}

// freshClientPoolProbe (C06, oracle only): the very first compressed response a freshly built
// client sees is labelled gzip and is not gzip at all - the decompressor its pool hands out has
// never been reset successfully: the call fails with a coded error, it does not panic (round
// 11, C06-mo; the handler-side twin is freshPoolProbe).
func freshClientPoolProbe(c *Ctx) {
	garbage := []byte("this is definitely not compressed data")
	for _, proto := range []string{"connect", "grpc", "grpcweb"} {
		for _, kind := range []string{"unary", "server"} {
			for _, payload := range [][]byte{garbage, {0x1f, 0x8b, 8}} {
				desc := fmt.Sprintf("fresh %s client, %s call; the response says gzip and carries %d bytes that are no gzip stream", proto, kind, len(payload))
				c.Count("probe-fresh-client-pool")
				got := safely(func() string {
					header := http.Header{"Content-Type": {ctFor(proto, kind, "raw")}}
					encH, _ := encHeaderFor(proto, kind)
					header[encH] = []string{"gzip"}
					body := payload
					trailer := http.Header{}
					if !(proto == "connect" && kind == "unary") {
						body = frame(1, payload)
						switch proto {
						case "connect":
							body = append(body, frame(2, []byte("{}"))...)
						case "grpc":
							trailer = http.Header{"Grpc-Status": {"0"}}
						default:
							body = append(body, frame(0x80, []byte("grpc-status: 0\r\n"))...)
						}
					}
					hc := &staticClient{status: 200, header: header, trailer: trailer, body: body}
					cl := connect.NewClient[[]byte, []byte](hc, "http://h/s/m", append(protoOpts(proto), connect.WithCodec(rawCodec{"raw"}))...)
					var err error
					if kind == "unary" {
						_, err = cl.CallUnary(context.Background(), connect.NewRequest(&[]byte{1}))
					} else {
						st, cerr := cl.CallServerStream(context.Background(), connect.NewRequest(&[]byte{1}))
						if cerr != nil {
							return "call=" + codeName(cerr)
						}
						defer st.Close()
						for st.Receive() {
						}
						err = st.Err()
					}
					return "call=" + codeName(err)
				})
				if got != "call=invalid_argument" {
					c.Fail("client-fresh-pool", desc, got, "an undecodable payload fails the call with invalid_argument, without a panic")
				}
			}
		}
	}
}

// respAndErrClient returns a response together with an error (a transport that had something
// in hand when it failed).
type respAndErrClient struct {
	inner *staticClient
	err   error
}

func (r *respAndErrClient) Do(req *http.Request) (*http.Response, error) {
	res, _ := r.inner.Do(req)
	return res, r.err
}

// onceFailingBody hands out its first bytes together with an error that is not io.EOF, once;
// asked again it is at its end (an error that is not sticky).
type onceFailingBody struct {
	data []byte
	err  error
	done bool
}

func (b *onceFailingBody) Read(p []byte) (int, error) {
	if b.done {
		return 0, io.EOF
	}
	b.done = true
	n := copy(p, b.data)
	return n, b.err
}
func (b *onceFailingBody) Close() error { return nil }

// transportFailureProbes (C04, oracle only): the transport fails "at any point" - also in ways
// net/http's own client does not: Do returns an error *and* a response; a body read returns
// bytes *and* an error and claims a clean end when asked again. The call fails with a coded
// error; nothing that arrived that way is a complete answer (round 11, C04-mo, C04-mp).
func transportFailureProbes(c *Ctx) {
	for _, proto := range []string{"connect", "grpc", "grpcweb"} {
		for _, kind := range []string{"unary", "server"} {
			for _, variant := range []string{"Do returns a complete response and an error", "the body returns its first bytes with an error, then io.EOF"} {
				desc := fmt.Sprintf("%s %s call: %s", proto, kind, variant)
				c.Count("probe-transport-failure")
				got := safely(func() string {
					header := http.Header{"Content-Type": {ctFor(proto, kind, "raw")}}
					trailer := http.Header{}
					payload := []byte{1, 2, 3, 4, 5}
					body := payload
					if !(proto == "connect" && kind == "unary") {
						body = frame(0, payload)
						switch proto {
						case "connect":
							body = append(body, frame(2, []byte("{}"))...)
						case "grpc":
							trailer = http.Header{"Grpc-Status": {"0"}}
						default:
							body = append(body, frame(0x80, []byte("grpc-status: 0\r\n"))...)
						}
					}
					var hc connect.HTTPClient
					if strings.HasPrefix(variant, "Do") {
						hc = &respAndErrClient{inner: &staticClient{status: 200, header: header, trailer: trailer, body: body}, err: errors.New("read tcp 10.0.0.1:443: connection reset by peer")}
					} else {
						cut := 2
						if len(body) > 5 {
							cut = 7 // the prefix and two bytes of the payload
						}
						hc = &bodyClient{status: 200, header: header, body: &onceFailingBody{data: body[:cut], err: errors.New("read tcp 10.0.0.1:443: connection reset by peer")}}
					}
					cl := connect.NewClient[[]byte, []byte](hc, "http://h/s/m", append(protoOpts(proto), connect.WithCodec(rawCodec{"raw"}))...)
					var err error
					n := 0
					if kind == "unary" {
						var res *connect.Response[[]byte]
						res, err = cl.CallUnary(context.Background(), connect.NewRequest(&[]byte{1}))
						if err == nil && res != nil {
							n = 1
						}
					} else {
						st, cerr := cl.CallServerStream(context.Background(), connect.NewRequest(&[]byte{1}))
						if cerr != nil {
							err = cerr
						} else {
							defer st.Close()
							for st.Receive() {
								n++
							}
							err = st.Err()
						}
					}
					if err == nil {
						return fmt.Sprintf("success with %d message(s)", n)
					}
					var ce *connect.Error
					if !errors.As(err, &ce) || ce.Code() == 0 {
						return "an error that is not coded: " + err.Error()
					}
					return "failed"
				})
				if got != "failed" {
					c.Fail("term-transport-failure-lost", desc, got, "a failure of the transport fails the call with a coded error")
				}
			}
		}
	}
}

// plainErrorAfterDeadlineProbe (C02, oracle only): "a plain Go error arrives as code unknown with
// its text" - also when the handler returns it after its own deadline has passed (a deadline
// the peer's timeout header set, which the caller's context does not share: a proxy's, a raw
// client's). The handler's error is not a context error and is not to be re-labelled as one
// (round 11, C02-mp).
func plainErrorAfterDeadlineProbe(c *Ctx) {
	for _, proto := range []string{"connect", "grpc", "grpcweb"} {
		for _, kind := range []string{"unary", "server"} {
			desc := fmt.Sprintf("%s %s handler under a 15 ms timeout header returns errors.New(\"backend said no\") after 60 ms", proto, kind)
			c.Count("probe-plain-error-after-deadline")
			got := safely(func() string {
				fail := func(ctx context.Context) error {
					select {
					case <-ctx.Done():
					case <-time.After(2 * time.Second):
						return errors.New("the handler's context never ended")
					}
					time.Sleep(20 * time.Millisecond)
					return errors.New("backend said no")
				}
				var h *connect.Handler
				if kind == "unary" {
					h = connect.NewUnaryHandler("/s/m", func(ctx context.Context, r *connect.Request[[]byte]) (*connect.Response[[]byte], error) {
						return nil, fail(ctx)
					}, connect.WithCodec(rawCodec{"raw"}))
				} else {
					h = connect.NewServerStreamHandler("/s/m", func(ctx context.Context, r *connect.Request[[]byte], s *connect.ServerStream[[]byte]) error {
						_ = s.Send(&[]byte{1})
						return fail(ctx)
					}, connect.WithCodec(rawCodec{"raw"}))
				}
				var body []byte
				if proto == "connect" && kind == "unary" {
					body = []byte{}
				} else {
					body = frame(0, nil)
				}
				req := httptest.NewRequest(http.MethodPost, "/s/m", bytes.NewReader(body))
				req.ProtoMajor, req.ProtoMinor, req.Proto = 2, 0, "HTTP/2.0"
				req.Header["Content-Type"] = []string{ctFor(proto, kind, "raw")}
				if proto == "connect" {
					req.Header["Connect-Timeout-Ms"] = []string{"15"}
				} else {
					req.Header["Grpc-Timeout"] = []string{"15m"}
				}
				rec := httptest.NewRecorder()
				h.ServeHTTP(rec, req)
				res := rec.Result()
				b, _ := io.ReadAll(res.Body)
				header := http.Header{}
				for k, v := range res.Header {
					if !strings.HasPrefix(k, http.TrailerPrefix) {
						header[k] = v
					}
				}
				hc := &staticClient{status: res.StatusCode, header: header, trailer: res.Trailer, body: b}
				cl := connect.NewClient[[]byte, []byte](hc, "http://h/s/m", append(protoOpts(proto), connect.WithCodec(rawCodec{"raw"}))...)
				var err error
				if kind == "unary" {
					_, err = cl.CallUnary(context.Background(), connect.NewRequest(&[]byte{1}))
				} else {
					st, cerr := cl.CallServerStream(context.Background(), connect.NewRequest(&[]byte{1}))
					if cerr != nil {
						return "call: " + cerr.Error()
					}
					defer st.Close()
					for st.Receive() {
					}
					err = st.Err()
				}
				var ce *connect.Error
				if !errors.As(err, &ce) {
					return fmt.Sprintf("not a coded error: %v", err)
				}
				return ce.Code().String() + "/" + ce.Message()
			})
			if got != "unknown/backend said no" {
				c.Fail("rt-error-plain-after-deadline", desc, got, "a plain Go error arrives as code unknown with its text")
			}
		}
	}
}

// headerBeforeReceiveProbe (C11, oracle only): a client that asks a stream for the response
// headers before its first Receive gets them - the accessor waits for the response - in every
// protocol, several values and -Bin values included (round 11, C11-mo).
func headerBeforeReceiveProbe(c *Ctx) {
	for _, proto := range []string{"connect", "grpc", "grpcweb"} {
		for _, kind := range []string{"server", "bidi"} {
			desc := fmt.Sprintf("%s %s stream over HTTP/2: ResponseHeader() right after the request was sent, before any Receive; the handler answers 40 ms later", proto, kind)
			c.Count("probe-header-before-receive")
			got := safely(func() string {
				set := func(h http.Header) {
					time.Sleep(40 * time.Millisecond)
					h.Add("X-Multi", "a")
					h.Add("X-Multi", "b")
					h.Set("X-Key-Bin", connect.EncodeBinaryHeader([]byte{0, 255, 7}))
				}
				var h *connect.Handler
				if kind == "server" {
					h = connect.NewServerStreamHandler("/s/m", func(ctx context.Context, r *connect.Request[[]byte], s *connect.ServerStream[[]byte]) error {
						set(s.ResponseHeader())
						return s.Send(&[]byte{1})
					}, connect.WithCodec(rawCodec{"raw"}))
				} else {
					h = connect.NewBidiStreamHandler("/s/m", func(ctx context.Context, s *connect.BidiStream[[]byte, []byte]) error {
						set(s.ResponseHeader())
						return s.Send(&[]byte{1})
					}, connect.WithCodec(rawCodec{"raw"}))
				}
				srv := startServer(h, true)
				defer srv.Close()
				cl := connect.NewClient[[]byte, []byte](srv.Client(), srv.URL+"/s/m", protoOpts(proto)...)
				var hdr http.Header
				if kind == "server" {
					st, err := cl.CallServerStream(context.Background(), connect.NewRequest(&[]byte{1}))
					if err != nil {
						return "call: " + err.Error()
					}
					defer st.Close()
					hdr = st.ResponseHeader().Clone()
				} else {
					st := cl.CallBidiStream(context.Background())
					_ = st.Send(&[]byte{1})
					_ = st.CloseRequest()
					defer st.CloseResponse()
					hdr = st.ResponseHeader().Clone()
				}
				return strings.Join(hdr.Values("X-Multi"), ",") + " " + hdr.Get("X-Key-Bin")
			})
			if got != "a,b "+connect.EncodeBinaryHeader([]byte{0, 255, 7}) {
				c.Fail("rt-header-before-receive", desc, got, "the response headers the handler set are visible to the client")
			}
		}
	}
}

// codeTextProbes (C06/C18, oracle only): in the JSON forms of an error the code is one of the
// defined lower-case names or code_<number>. A peer's text that differs from a valid one only
// by letter case (gRPC enum spelling, a Kelvin sign) is not a code: the client treats it exactly
// as it treats any other garbage text - for unary errors the code comes from the HTTP status.
func codeTextProbes(c *Ctx) {
	view := func(kind string, text string) string {
		return safely(func() string {
			var sc *staticClient
			if kind == "unary" {
				sc = &staticClient{status: 503, header: http.Header{"Content-Type": {"application/json"}}, body: []byte(`{"code":"` + text + `","message":"m"}`)}
			} else {
				end := []byte(`{"error":{"code":"` + text + `","message":"m"}}`)
				sc = &staticClient{status: 200, header: http.Header{"Content-Type": {"application/connect+raw"}}, body: append(frame(0, []byte{1}), frame(2, end)...)}
			}
			v := callClient("connect", kind, sc, nil, [][]byte{{1}})
			if v.err == nil {
				return "success"
			}
			w, _, ok := errView(v.err)
			if !ok {
				return "uncoded"
			}
			return strconv.Itoa(w.code)
		})
	}
	for _, kind := range []string{"unary", "server"} {
		baseline := view(kind, "zzz_not_a_code")
		for _, text := range []string{"NOT_FOUND", "Not_Found", "Canceled", "CANCELED", "Permission_Denied", "CODE_17", "Code_99", "un\u212anown", "UNKNOWN", "Data_Loss", "not_Found"} {
			c.Count("probe-code-text")
			if got := view(kind, text); got != baseline {
				// (one finding, two owners: C06 speaks of the client's verdict, C18 of the text codec)
				for _, key := range []string{"client-code-text-accepted", "code-accepts-garbage"} {
					c.Fail(key, fmt.Sprintf("Connect %s call, peer's error carries the code text %q", kind, text), got, "a text that is neither a defined name nor code_<number> is not a code: want the same outcome as for garbage text ("+baseline+")")
				}
			}
		}
	}
}

// lengthClient answers like staticClient but also announces a Content-Length of its choosing
// (the field is the peer's claim; what arrives is the body).
type lengthClient struct {
	staticClient
	length int64
}

func (l *lengthClient) Do(req *http.Request) (*http.Response, error) {
	res, err := l.staticClient.Do(req)
	if res != nil {
		res.ContentLength = l.length
	}
	return res, err
}

// contentLengthProbes (C06, oracle only): whatever Content-Length a response announces -
// absurdly large, smaller than the body, negative - the call terminates without panicking,
// with success or a coded error.
func contentLengthProbes(c *Ctx) {
	for _, proto := range []string{"connect", "grpc", "grpcweb"} {
		for _, kind := range []string{"unary", "server"} {
			body := frame(0, []byte{1, 2, 3})
			trailer := http.Header{}
			switch {
			case proto == "connect" && kind == "unary":
				body = []byte{1, 2, 3}
			case proto == "connect":
				body = append(body, frame(2, []byte("{}"))...)
			case proto == "grpcweb":
				body = append(body, frame(0x80, []byte("grpc-status: 0\r\n"))...)
			default:
				trailer = http.Header{"Grpc-Status": {"0"}}
			}
			for _, length := range []int64{1 << 62, math.MaxInt64, 2, 0, -1, -7} {
				for _, status := range []int{200, 503} {
					desc := fmt.Sprintf("%s %s call, response status %d announcing Content-Length %d over a %d-byte body", proto, kind, status, length, len(body))
					c.Count("probe-content-length")
					c.Begin(desc)
					got := safely(func() string {
						lc := &lengthClient{staticClient{status: status, header: http.Header{"Content-Type": {ctFor(proto, kind, "raw")}}, trailer: trailer, body: body}, length}
						v := callClient(proto, kind, lc, nil, [][]byte{{1}})
						if v.err == nil {
							return "ok"
						}
						if w, _, ok := errView(v.err); !ok || w.code == 0 {
							return "uncoded or zero code: " + v.err.Error()
						}
						return "ok"
					})
					if got != "ok" {
						c.Fail("client-panic", desc, got, "the client must fail safely whatever Content-Length the peer announces")
					}
				}
			}
		}
	}
}

// userCodecProbe (C05, oracle only): a codec the application registers under one of the two
// built-in names ("proto", "json") is the codec that is used - on handlers and on clients: the
// bytes on the wire are the application's, and a peer using the same codec is understood.
func userCodecProbe(c *Ctx) {
	for _, name := range []string{"json", "proto"} {
		for _, proto := range []string{"connect", "grpc", "grpcweb"} {
			for _, kind := range []string{"unary", "server"} {
				desc := fmt.Sprintf("%s %s call, handler and client both register their own codec under the built-in name %q", proto, kind, name)
				c.Count("probe-user-codec")
				got := safely(func() string {
					var seen []byte
					hopts := []connect.HandlerOption{connect.WithCodec(rawCodec{name})}
					var h *connect.Handler
					if kind == "unary" {
						h = connect.NewUnaryHandler("/s/m", func(ctx context.Context, r *connect.Request[[]byte]) (*connect.Response[[]byte], error) {
							seen = append([]byte{}, (*r.Msg)...)
							return connect.NewResponse(&[]byte{9, 8, 7}), nil
						}, hopts...)
					} else {
						h = connect.NewServerStreamHandler("/s/m", func(ctx context.Context, r *connect.Request[[]byte], s *connect.ServerStream[[]byte]) error {
							seen = append([]byte{}, (*r.Msg)...)
							return s.Send(&[]byte{9, 8, 7})
						}, hopts...)
					}
					copts := []connect.ClientOption{connect.WithCodec(rawCodec{name})}
					if proto == "grpc" {
						copts = append(copts, connect.WithGRPC())
					} else if proto == "grpcweb" {
						copts = append(copts, connect.WithGRPCWeb())
					}
					v := callClient2(proto, kind, &inprocClient{h: h}, copts, []byte{1, 2, 3})
					if v.err != nil {
						return "call failed: " + v.err.Error()
					}
					if !bytes.Equal(seen, []byte{1, 2, 3}) || len(v.msgs) != 1 || !bytes.Equal(v.msgs[0], []byte{9, 8, 7}) {
						return fmt.Sprintf("handler saw %v, client got %v", seen, v.msgs)
					}
					return "ok"
				})
				if got != "ok" {
					c.Fail("wire-user-codec-replaced", desc, got, "the application's codec was not the one used")
				}
			}
		}
	}
}

// callClient2: one unary or server-streaming call with explicit client options.
func callClient2(proto, kind string, hc connect.HTTPClient, opts []connect.ClientOption, msg []byte) (v clientView) {
	cl := connect.NewClient[[]byte, []byte](hc, "http://h/s/m", opts...)
	if kind == "unary" {
		res, err := cl.CallUnary(context.Background(), connect.NewRequest(&msg))
		if err != nil {
			v.err = err
			return v
		}
		v.msgs = [][]byte{*res.Msg}
		return v
	}
	st, err := cl.CallServerStream(context.Background(), connect.NewRequest(&msg))
	if err != nil {
		v.err = err
		return v
	}
	for st.Receive() {
		v.msgs = append(v.msgs, append([]byte{}, (*st.Msg())...))
	}
	v.err = st.Err()
	_ = st.Close()
	return v
}

// malformedErrorBodyProbes (C06, oracle only): error bodies that are not JSON at all - in the
// shapes that trip parsers: a value missing after a colon, inside "details", inside an unknown
// member, unterminated, deeply nested, with a BOM - are "no valid protocol-level error": the
// call terminates (the per-operation watchdog is the bound) with the HTTP status' code for
// unary calls and a coded error for streams.
func malformedErrorBodyProbes(c *Ctx) {
	docs := []string{`{"details":[{"x":}],"y":}`, `{"zzz":{"":},"b":}`, `{"code":}`, `{"code":"not_found","message":}`, `{`, `{"details":[`, `[]`, `null`, `"not_found"`,
		`{"code":"not_found","code":"internal"}`, "\xef\xbb\xbf{\"code\":\"not_found\"}", strings.Repeat("[", 5000), strings.Repeat(`{"a":`, 3000), `{"details":[{"type":"x","value":"!!!"}]}`, `{"details":[{"type":1}],"code":"not_found"}`}
	for _, kind := range []string{"unary", "server"} {
		for _, doc := range docs {
			if kind == "server" && doc == "null" {
				continue // {"error":null} is a well-formed end of stream without an error
			}
			shown := doc
			if len(shown) > 40 {
				shown = shown[:40] + "…"
			}
			desc := fmt.Sprintf("Connect %s call, peer's error document is %q", kind, shown)
			c.Count("probe-malformed-error-body")
			c.Begin(desc)
			got := safely(func() string {
				var sc *staticClient
				if kind == "unary" {
					sc = &staticClient{status: 503, header: http.Header{"Content-Type": {"application/json"}}, body: []byte(doc)}
				} else {
					sc = &staticClient{status: 200, header: http.Header{"Content-Type": {"application/connect+raw"}}, body: append(frame(0, []byte{1}), frame(2, []byte(`{"error":`+doc+`}`))...)}
				}
				v := callClient("connect", kind, sc, nil, [][]byte{{1}})
				if v.err == nil {
					return "success"
				}
				w, _, ok := errView(v.err)
				if !ok || w.code == 0 {
					return "uncoded or zero code: " + v.err.Error()
				}
				return strconv.Itoa(w.code)
			})
			bad := strings.HasPrefix(got, "PANIC") || strings.HasPrefix(got, "HANG") || strings.HasPrefix(got, "uncoded") || got == "success"
			// documents that ARE valid JSON with a valid code may be honoured; the malformed ones
			// fall back to the HTTP status (unavailable for 503)
			if kind == "unary" && !bad && !json.Valid([]byte(doc)) && got != "14" {
				bad = true
			}
			if bad {
				c.Fail("client-panic", desc, got, "the client must terminate with a coded error (for a unary call without a valid error document: the HTTP status' code)")
			}
		}
	}
}

// repeatedReceiveProbe (F24): a client that asks again after the end of the stream - a loop with
// one iteration too many, an interceptor that drains - must not change what the call reports:
// the trailers the handler set stay what they are, value for value.
func repeatedReceiveProbe(c *Ctx) {
	for _, proto := range []string{"connect", "grpc", "grpcweb"} {
		for _, failing := range []bool{false, true} {
			h := connect.NewBidiStreamHandler("/s/m", func(ctx context.Context, s *connect.BidiStream[[]byte, []byte]) error {
				for {
					if _, err := s.Receive(); err != nil {
						break
					}
				}
				s.ResponseTrailer().Add("X-T", "t1")
				s.ResponseTrailer().Add("X-T", "t2")
				s.ResponseTrailer().Add("X-U", "u1")
				_ = s.Send(&[]byte{1})
				if failing {
					e := connect.NewError(connect.CodeAborted, errors.New("stop"))
					e.Meta().Add("X-Err", "e1")
					return e
				}
				return nil
			}, connect.WithCodec(rawCodec{"raw"}))
			desc := fmt.Sprintf("%s bidi call (handler error=%v): Receive until the end, then three more times", proto, failing)
			c.Begin(desc)
			c.Count("repeated-receive-probe")
			got := safely(func() string {
				opts := []connect.ClientOption{connect.WithCodec(rawCodec{"raw"})}
				if proto == "grpc" {
					opts = append(opts, connect.WithGRPC())
				} else if proto == "grpcweb" {
					opts = append(opts, connect.WithGRPCWeb())
				}
				cl := connect.NewClient[[]byte, []byte](&inprocClient{h: h}, "http://h/s/m", opts...)
				st := cl.CallBidiStream(context.Background())
				_ = st.Send(&[]byte{7})
				_ = st.CloseRequest()
				var first error
				for i := 0; i < 10; i++ {
					if _, err := st.Receive(); err != nil {
						first = err
						break
					}
				}
				snapshot := fmt.Sprintf("X-T=%q X-U=%q", st.ResponseTrailer().Values("X-T"), st.ResponseTrailer().Values("X-U"))
				codes := []string{codeOrOKp(first)}
				for i := 0; i < 3; i++ {
					_, err := st.Receive()
					codes = append(codes, codeOrOKp(err))
				}
				after := fmt.Sprintf("X-T=%q X-U=%q", st.ResponseTrailer().Values("X-T"), st.ResponseTrailer().Values("X-U"))
				_ = st.CloseResponse()
				meta := ""
				var ce *connect.Error
				if failing && errors.As(first, &ce) {
					meta = fmt.Sprintf(" err-meta X-T=%q", ce.Meta().Values("X-T"))
				}
				if snapshot != after {
					return fmt.Sprintf("trailers changed: first %s, after three more Receives %s (codes %v)", snapshot, after, codes)
				}
				return snapshot + meta
			})
			want := `X-T=["t1" "t2"] X-U=["u1"]`
			if failing {
				want += ` err-meta X-T=["t1" "t2"]`
			}
			if got != want {
				c.Fail("rt-trailer-repeated-receive", desc, got, "the response trailers must be what the handler set, each value once, however often Receive is asked again after the end: "+want)
			}
		}
	}
}

func codeOrOKp(err error) string {
	if err == nil {
		return "ok"
	}
	if errors.Is(err, io.EOF) {
		return "eof"
	}
	return connect.CodeOf(err).String()
}

// statusBeforeEncodingProbe (F30): a non-200 answer to a unary Connect call that names a content
// encoding this client does not know carries no protocol-level error the client could read: the
// code is that of the HTTP status, as for every other unreadable non-200 body - not `internal`.
func statusBeforeEncodingProbe(c *Ctx) {
	for _, tc := range []struct {
		status int
		enc    string
		want   string
	}{{503, "br", "unavailable"}, {404, "zstd", "unimplemented"}, {429, "x-unknown", "unavailable"}, {401, "br", "unauthenticated"}, {502, "identity", "unavailable"}} {
		for _, body := range []string{"", "<html>busy</html>", `{"code":"aborted","message":"m"}`} {
			desc := fmt.Sprintf("unary Connect call answered %d with Content-Encoding: %s and body %q", tc.status, tc.enc, body)
			c.Begin(desc)
			c.Count("status-before-encoding-probe")
			got := safely(func() string {
				hc := &staticClient{status: tc.status, header: http.Header{"Content-Type": {"application/json"}, "Content-Encoding": {tc.enc}}, body: []byte(body)}
				cl := connect.NewClient[[]byte, []byte](hc, "http://h/s/m", connect.WithCodec(rawCodec{"raw"}))
				_, err := cl.CallUnary(context.Background(), connect.NewRequest(&[]byte{1}))
				return codeOrOKp(err)
			})
			want := tc.want
			if tc.enc == "identity" && strings.HasPrefix(body, "{") {
				want = "aborted" // readable after all
			}
			if got != want {
				c.Fail("client-status-before-encoding", desc, got, "a non-200 response without a protocol-level error this client can read takes its code from the HTTP status: "+want)
			}
		}
	}
}

// recoverPassThroughProbe: a handler with WithRecover that *returns* an error (nothing panics):
// the recovery function has no part in it, the client gets the handler's error - code, message,
// metadata - in every protocol and for every streaming kind (round 9, C02-mk).
func recoverPassThroughProbe(c *Ctx) {
	for _, proto := range []string{"connect", "grpc", "grpcweb"} {
		for _, kind := range []string{"unary", "server", "client", "bidi"} {
			for _, recovered := range []string{"error", "nil"} {
				calls := 0
				rec := connect.WithRecover(func(context.Context, connect.Spec, http.Header, any) error {
					calls++
					if recovered == "nil" {
						return nil
					}
					return connect.NewError(connect.CodeInternal, errors.New("recovered"))
				})
				fail := func() error {
					e := connect.NewError(connect.CodeFailedPrecondition, errors.New("not ready"))
					e.Meta().Set("X-Why", "w1")
					return e
				}
				opts := []connect.HandlerOption{connect.WithCodec(rawCodec{"raw"}), rec}
				var h http.Handler
				switch kind {
				case "unary":
					h = connect.NewUnaryHandler("/s/m", func(ctx context.Context, r *connect.Request[[]byte]) (*connect.Response[[]byte], error) {
						return nil, fail()
					}, opts...)
				case "server":
					h = connect.NewServerStreamHandler("/s/m", func(ctx context.Context, r *connect.Request[[]byte], s *connect.ServerStream[[]byte]) error {
						_ = s.Send(&[]byte{1})
						return fail()
					}, opts...)
				case "client":
					h = connect.NewClientStreamHandler("/s/m", func(ctx context.Context, s *connect.ClientStream[[]byte]) (*connect.Response[[]byte], error) {
						for s.Receive() {
						}
						return nil, fail()
					}, opts...)
				default:
					h = connect.NewBidiStreamHandler("/s/m", func(ctx context.Context, s *connect.BidiStream[[]byte, []byte]) error {
						for {
							if _, err := s.Receive(); err != nil {
								break
							}
						}
						return fail()
					}, opts...)
				}
				desc := fmt.Sprintf("%s %s handler with WithRecover (recovery function returns %s) returns failed_precondition with metadata; nothing panics", proto, kind, recovered)
				c.Begin(desc)
				c.Count("recover-pass-through-probe")
				got := safely(func() string {
					v := callClient(proto, kind, &inprocClient{h: h}, nil, [][]byte{{1}})
					if v.err == nil {
						return fmt.Sprintf("success (recovery function called %d times)", calls)
					}
					var ce *connect.Error
					if !errors.As(v.err, &ce) {
						return "uncoded " + v.err.Error()
					}
					return fmt.Sprintf("code=%s message=%q X-Why=%q recover-calls=%d", ce.Code(), ce.Message(), ce.Meta().Values("X-Why"), calls)
				})
				if want := `code=failed_precondition message="not ready" X-Why=["w1"] recover-calls=0`; got != want {
					c.Fail("rt-error-with-recover", desc, got, "the handler's error must reach the client as it is: "+want)
				}
			}
		}
	}
}

// grpcPrefixedMetadataProbe: error metadata under keys that start with Grpc- but are not the
// protocol's own three (Grpc-Retry-Pushback-Ms is a standard one applications set): every
// key/value the handler attached arrives, in every protocol (round 9, C02-ml).
func grpcPrefixedMetadataProbe(c *Ctx) {
	for _, proto := range []string{"connect", "grpc", "grpcweb"} {
		for _, kind := range []string{"unary", "server"} {
			for _, after := range []bool{false, true} {
				if after && kind == "unary" {
					continue
				}
				fail := func() error {
					e := connect.NewError(connect.CodeUnavailable, errors.New("try later"))
					e.Meta().Set("Grpc-Retry-Pushback-Ms", "1500")
					e.Meta().Add("Grpc-Trace-Id", "abc")
					e.Meta().Add("Grpc-Trace-Id", "def")
					return e
				}
				var h http.Handler
				if kind == "unary" {
					h = connect.NewUnaryHandler("/s/m", func(ctx context.Context, r *connect.Request[[]byte]) (*connect.Response[[]byte], error) {
						return nil, fail()
					}, connect.WithCodec(rawCodec{"raw"}))
				} else {
					h = connect.NewServerStreamHandler("/s/m", func(ctx context.Context, r *connect.Request[[]byte], s *connect.ServerStream[[]byte]) error {
						if after {
							_ = s.Send(&[]byte{1})
						}
						return fail()
					}, connect.WithCodec(rawCodec{"raw"}))
				}
				desc := fmt.Sprintf("%s %s handler (message sent first=%v) returns unavailable with metadata Grpc-Retry-Pushback-Ms and two values of Grpc-Trace-Id", proto, kind, after)
				c.Begin(desc)
				c.Count("grpc-prefixed-metadata-probe")
				got := safely(func() string {
					v := callClient(proto, kind, &inprocClient{h: h}, nil, [][]byte{{1}})
					var ce *connect.Error
					if !errors.As(v.err, &ce) {
						return fmt.Sprintf("no coded error: %v", v.err)
					}
					return fmt.Sprintf("code=%s pushback=%q trace=%q", ce.Code(), ce.Meta().Values("Grpc-Retry-Pushback-Ms"), ce.Meta().Values("Grpc-Trace-Id"))
				})
				if want := `code=unavailable pushback=["1500"] trace=["abc" "def"]`; got != want {
					c.Fail("rt-error-meta-grpc-prefixed", desc, got, "every key/value the handler attached to the error must reach the client: "+want)
				}
			}
		}
	}
}

// noResponseProbe: the peer accepts the request and closes the connection without an answer;
// net/http reports `Post …: EOF` - an error that *wraps* io.EOF. That is a failed call in every
// protocol and kind, never an empty success (round 9, C04-mk).
func noResponseProbe(c *Ctx) {
	for _, proto := range []string{"connect", "grpc", "grpcweb"} {
		for _, kind := range []string{"unary", "server", "client"} {
			for _, limit := range []int{0, 64} {
				desc := fmt.Sprintf("%s %s call (read limit %d): the transport fails with an error wrapping io.EOF and no response", proto, kind, limit)
				c.Begin(desc)
				c.Count("no-response-probe")
				got := safely(func() string {
					hc := failingDo{err: &url.Error{Op: "Post", URL: "http://h/s/m", Err: io.EOF}}
					v := callClient(proto, kind, hc, nil, [][]byte{{1}}, connect.WithReadMaxBytes(limit))
					if v.err == nil {
						return fmt.Sprintf("success with %d message(s)", len(v.msgs))
					}
					var ce *connect.Error
					if !errors.As(v.err, &ce) {
						return "uncoded: " + v.err.Error()
					}
					return "failed: " + ce.Code().String()
				})
				if !strings.HasPrefix(got, "failed: ") {
					c.Fail("term-no-response-success", desc, got, "a call that got no response at all must fail with a coded error")
				}
			}
		}
	}
}

// sendAfterCutProbe: the response of a Connect stream ends without its end-of-stream envelope
// while the request side is still open and nobody reads the request any more. Receive reports
// the protocol error; a Send after that must return (with an error wrapping io.EOF), not block
// on a pipe that nothing drains (round 9, C04-ml).
func sendAfterCutProbe(c *Ctx) {
	for _, proto := range []string{"connect", "grpc", "grpcweb"} {
		desc := proto + " bidi call: one response message, then the body ends without a terminator; the peer has stopped reading the request; Send after the failed Receive"
		c.Begin(desc)
		c.Count("send-after-cut-probe")
		got := safely(func() string {
			hc := &cutNoDrainClient{header: http.Header{"Content-Type": {ctFor(proto, "bidi", "raw")}}, body: frame(0, []byte{1})}
			opts := []connect.ClientOption{connect.WithCodec(rawCodec{"raw"})}
			if proto == "grpc" {
				opts = append(opts, connect.WithGRPC())
			} else if proto == "grpcweb" {
				opts = append(opts, connect.WithGRPCWeb())
			}
			cl := connect.NewClient[[]byte, []byte](hc, "http://h/s/m", opts...)
			st := cl.CallBidiStream(context.Background())
			if err := st.Send(&[]byte{1}); err != nil {
				return "first send: " + err.Error()
			}
			if _, err := st.Receive(); err != nil {
				return "first receive: " + err.Error()
			}
			_, rerr := st.Receive()
			done := make(chan error, 1)
			go func() { done <- st.Send(&[]byte{2}) }()
			select {
			case serr := <-done:
				_ = st.CloseRequest()
				_ = st.CloseResponse()
				return fmt.Sprintf("receive=%s send-wraps-eof=%v", codeOrOKp(rerr), serr != nil && errors.Is(serr, io.EOF))
			case <-time.After(2 * time.Second):
				hc.release()
				<-done
				return fmt.Sprintf("receive=%s, then Send blocked for 2 s", codeOrOKp(rerr))
			}
		})
		if got != "receive=internal send-wraps-eof=true" {
			c.Fail("term-send-after-cut", desc, got, "after the response ended without its terminator the call has failed: Receive says so and a later Send returns an error wrapping io.EOF instead of blocking")
		}
	}
}

// cutNoDrainClient answers with a fixed body and reads exactly one write of the request body.
type cutNoDrainClient struct {
	header http.Header
	body   []byte
	req    *http.Request
}

func (c *cutNoDrainClient) Do(req *http.Request) (*http.Response, error) {
	c.req = req
	buf := make([]byte, 5)
	_, _ = io.ReadFull(req.Body, buf) // the prefix of the first message
	n := int(buf[1])<<24 | int(buf[2])<<16 | int(buf[3])<<8 | int(buf[4])
	_, _ = io.ReadFull(req.Body, make([]byte, n))
	return &http.Response{StatusCode: 200, Status: "200 OK", Proto: "HTTP/2.0", ProtoMajor: 2, Header: c.header, Body: io.NopCloser(bytes.NewReader(c.body)), Request: req}, nil
}

func (c *cutNoDrainClient) release() {
	go func() { _, _ = io.Copy(io.Discard, c.req.Body) }()
}

// non200GrpcStatusProbe: a non-200 answer to a gRPC or gRPC-Web call that also carries a
// Grpc-Status *header* - "0", "00", garbage, out of range - or broken details / an unknown
// encoding: whatever those say, a non-200 response is no gRPC response; the call fails with the
// code of the HTTP status, never succeeds, never takes `internal` from a parser (round 9, C06-mk).
func non200GrpcStatusProbe(c *Ctx) {
	for _, proto := range []string{"grpc", "grpcweb"} {
		for _, kind := range []string{"unary", "server", "bidi"} {
			for _, tc := range []struct {
				status int
				want   string
			}{{503, "unavailable"}, {401, "unauthenticated"}, {404, "unimplemented"}, {429, "unavailable"}} {
				for _, extra := range []http.Header{
					{"Grpc-Status": {"0"}}, {"Grpc-Status": {"00"}}, {"Grpc-Status": {"not-a-number"}}, {"Grpc-Status": {"-1"}}, {"Grpc-Status": {"99999999999"}},
					{"Grpc-Status": {"0"}, "Grpc-Message": {"fine"}}, {"Grpc-Status": {"8"}, "Grpc-Status-Details-Bin": {"!!!"}}, {"Grpc-Encoding": {"br"}}, {"Grpc-Status": {"0"}, "Grpc-Encoding": {"br"}},
				} {
					h := http.Header{"Content-Type": {ctFor(proto, kind, "raw")}}
					for k, v := range extra {
						h[k] = v
					}
					desc := fmt.Sprintf("%s %s call answered %d with headers %v and an empty body", proto, kind, tc.status, extra)
					c.Begin(desc)
					c.Count("non200-grpc-status-probe")
					got := safely(func() string {
						v := callClient(proto, kind, &staticClient{status: tc.status, header: h}, nil, [][]byte{{1}})
						if v.err == nil {
							return "success"
						}
						var ce *connect.Error
						if !errors.As(v.err, &ce) {
							return "uncoded: " + v.err.Error()
						}
						return ce.Code().String()
					})
					// a *valid, non-zero* Grpc-Status is a protocol-level error and may be believed
					if extra.Get("Grpc-Status") == "8" {
						continue
					}
					if got != tc.want {
						c.Fail("client-non200-grpc-status", desc, got, "a non-200 response that carries no valid protocol-level error takes its code from the HTTP status: "+tc.want)
					}
				}
			}
		}
	}
}

// emptyWebTrailerProbe: a gRPC-Web trailers frame of length zero (80 00 00 00 00), alone or after
// messages: no panic, a coded error (round 9, C06-ml).
func emptyWebTrailerProbe(c *Ctx) {
	for _, kind := range []string{"unary", "server", "client", "bidi"} {
		for _, body := range [][]byte{{0x80, 0, 0, 0, 0}, append(frame(0, []byte{1}), 0x80, 0, 0, 0, 0), append(append(frame(0, []byte{1}), frame(0, []byte{2})...), 0x81, 0, 0, 0, 0)} {
			desc := fmt.Sprintf("grpcweb %s call answered 200 with body %x", kind, body)
			c.Begin(desc)
			c.Count("empty-web-trailer-probe")
			got := safely(func() string {
				v := callClient("grpcweb", kind, &staticClient{status: 200, header: http.Header{"Content-Type": {ctFor("grpcweb", kind, "raw")}}, body: body}, nil, [][]byte{{1}})
				if v.err == nil {
					return "success"
				}
				var ce *connect.Error
				if !errors.As(v.err, &ce) {
					return "uncoded: " + v.err.Error()
				}
				return "failed: " + ce.Code().String()
			})
			if !strings.HasPrefix(got, "failed: ") || got == "failed: ok" {
				c.Fail("client-empty-web-trailer", desc, got, "a trailers frame without a status is a protocol error: a coded failure, not a panic and not success")
			}
		}
	}
}

// paddedBinaryProbe: values under -Bin keys are the application's strings: padded base64 (which
// DecodeBinaryHeader accepts and other stacks emit) arrives as it was written, in trailers and in
// error metadata (round 9, C11-ml).
func paddedBinaryProbe(c *Ctx) {
	for _, proto := range []string{"connect", "grpc", "grpcweb"} {
		for _, kind := range []string{"unary", "server"} {
			for _, failing := range []bool{false, true} {
				set := func(rt http.Header) error {
					rt.Set("X-Data-Bin", "AQ==")
					rt.Add("X-Many-Bin", "AQI=")
					rt.Add("X-Many-Bin", "AQID")
					if failing {
						e := connect.NewError(connect.CodeAborted, errors.New("stop"))
						e.Meta().Set("X-Err-Bin", "/w==")
						return e
					}
					return nil
				}
				var h http.Handler
				if kind == "unary" {
					h = connect.NewUnaryHandler("/s/m", func(ctx context.Context, r *connect.Request[[]byte]) (*connect.Response[[]byte], error) {
						res := connect.NewResponse(&[]byte{1})
						if err := set(res.Trailer()); err != nil {
							e := err.(*connect.Error)
							for k, v := range res.Trailer() {
								e.Meta()[k] = v
							}
							return nil, e
						}
						return res, nil
					}, connect.WithCodec(rawCodec{"raw"}))
				} else {
					h = connect.NewServerStreamHandler("/s/m", func(ctx context.Context, r *connect.Request[[]byte], s *connect.ServerStream[[]byte]) error {
						_ = s.Send(&[]byte{1})
						return set(s.ResponseTrailer())
					}, connect.WithCodec(rawCodec{"raw"}))
				}
				desc := fmt.Sprintf("%s %s handler (failing=%v) sets padded base64 under -Bin keys in trailers and error metadata", proto, kind, failing)
				c.Begin(desc)
				c.Count("padded-binary-probe")
				got := safely(func() string {
					v := callClient(proto, kind, &inprocClient{h: h}, nil, [][]byte{{1}})
					src := v.trailer
					extra := ""
					if failing {
						var ce *connect.Error
						if !errors.As(v.err, &ce) {
							return fmt.Sprintf("no coded error: %v", v.err)
						}
						src = ce.Meta()
						extra = fmt.Sprintf(" err=%q", ce.Meta().Values("X-Err-Bin"))
					} else if v.err != nil {
						return "failed: " + v.err.Error()
					}
					return fmt.Sprintf("data=%q many=%q", src.Values("X-Data-Bin"), src.Values("X-Many-Bin")) + extra
				})
				want := `data=["AQ=="] many=["AQI=" "AQID"]`
				if failing {
					want += ` err=["/w=="]`
				}
				if got != want {
					c.Fail("rt-trailer-padded-bin", desc, got, "values under -Bin keys arrive unchanged: "+want)
				}
			}
		}
	}
}

// unrenderableDetailProbe (F38): a handler's error carries a detail the Connect protocol cannot
// write as JSON (an Any whose type is not linked into this binary - a forwarding handler passes
// such details on). The detail may be lost on that protocol; the error is not: code, message and
// metadata arrive, and the response keeps its shape (an end-of-stream envelope, a JSON body).
func unrenderableDetailProbe(c *Ctx) {
	for _, proto := range []string{"connect", "grpc", "grpcweb"} {
		for _, kind := range []string{"unary", "server"} {
			fail := func() error {
				e := connect.NewError(connect.CodeResourceExhausted, errors.New("quota"))
				e.Meta().Set("X-Why", "w1")
				e.AddDetail(&anypb.Any{TypeUrl: "type.googleapis.com/acme.v1.NotLinkedIn", Value: []byte{8, 1}})
				return e
			}
			var h http.Handler
			if kind == "unary" {
				h = connect.NewUnaryHandler("/s/m", func(ctx context.Context, r *connect.Request[[]byte]) (*connect.Response[[]byte], error) {
					return nil, fail()
				}, connect.WithCodec(rawCodec{"raw"}))
			} else {
				h = connect.NewServerStreamHandler("/s/m", func(ctx context.Context, r *connect.Request[[]byte], s *connect.ServerStream[[]byte]) error {
					_ = s.Send(&[]byte{1})
					return fail()
				}, connect.WithCodec(rawCodec{"raw"}))
			}
			desc := fmt.Sprintf("%s %s handler returns resource_exhausted with metadata and a detail of a type this binary does not know", proto, kind)
			c.Begin(desc)
			c.Count("unrenderable-detail-probe")
			got := safely(func() string {
				v := callClient(proto, kind, &inprocClient{h: h}, nil, [][]byte{{1}})
				var ce *connect.Error
				if !errors.As(v.err, &ce) {
					return fmt.Sprintf("no coded error: %v", v.err)
				}
				return fmt.Sprintf("code=%s message=%q X-Why=%q", ce.Code(), ce.Message(), ce.Meta().Values("X-Why"))
			})
			if want := `code=resource_exhausted message="quota" X-Why=["w1"]`; got != want {
				c.Fail("rt-error-unrenderable-detail", desc, got, "the error reaches the client with its code, message and metadata: "+want)
			}
			// both at once (round 12, C05-mq): a detail that cannot be rendered *and* a message that
			// is not valid UTF-8 - each repaired on its own (F38, F23); together they must not
			// cost the response its shape either
			failBoth := func() error {
				e := connect.NewError(connect.CodeResourceExhausted, errors.New("quota \xff exceeded"))
				e.AddDetail(&anypb.Any{TypeUrl: "type.googleapis.com/acme.v1.NotLinkedIn", Value: []byte{8, 1}})
				return e
			}
			var hb *connect.Handler
			if kind == "unary" {
				hb = connect.NewUnaryHandler("/s/m", func(ctx context.Context, r *connect.Request[[]byte]) (*connect.Response[[]byte], error) {
					return nil, failBoth()
				}, connect.WithCodec(rawCodec{"raw"}))
			} else {
				hb = connect.NewServerStreamHandler("/s/m", func(ctx context.Context, r *connect.Request[[]byte], s *connect.ServerStream[[]byte]) error {
					_ = s.Send(&[]byte{1})
					return failBoth()
				}, connect.WithCodec(rawCodec{"raw"}))
			}
			descB := fmt.Sprintf("%s %s handler returns resource_exhausted with a message that is not valid UTF-8 and a detail of a type this binary does not know", proto, kind)
			c.Count("unrenderable-detail-probe")
			gotB := safely(func() string {
				rec := serveReal(proto, kind, false, hb)
				enc, _ := encHeaderFor(proto, kind)
				_, note := canonicalResponse(proto, kind, rec.status, rec.header, rec.trailer, rec.body, enc)
				hc := &staticClient{status: rec.status, header: rec.header, trailer: rec.trailer, body: rec.body}
				v := callClient(proto, kind, hc, nil, [][]byte{{1}})
				var ce *connect.Error
				if !errors.As(v.err, &ce) {
					return fmt.Sprintf("no coded error: %v", v.err)
				}
				return fmt.Sprintf("code=%s malformed=%q", ce.Code(), note)
			})
			if gotB != `code=resource_exhausted malformed=""` {
				c.Fail("wire-error-shape-lost", descB, gotB, "the response is well-formed for the protocol and carries the error's code")
				c.Fail("rt-error-code", descB, gotB, "the client received another code than resource_exhausted")
			}
		}
	}
}

// longErrorProbe: an error whose message is long - a stack trace, an upstream's HTML page -
// arrives whole, after messages too (where gRPC-Web carries it in the trailer block of the body),
// and the raw Grpc-Message a gRPC peer reads decodes to it (round 10, C02-mn, C18-mn).
func longErrorProbe(c *Ctx) {
	for _, proto := range []string{"connect", "grpc", "grpcweb"} {
		for _, n := range []int{9000, 60000} {
			for _, after := range []bool{false, true} {
				msg := strings.Repeat("stack frame %d: ünïcode\n", n/24)
				h := connect.NewServerStreamHandler("/s/m", func(ctx context.Context, r *connect.Request[[]byte], s *connect.ServerStream[[]byte]) error {
					if after {
						_ = s.Send(&[]byte{1})
					}
					return connect.NewError(connect.CodeInternal, errors.New(msg))
				}, connect.WithCodec(rawCodec{"raw"}))
				desc := fmt.Sprintf("%s server-stream handler (message sent first=%v) fails with a %d-byte error message", proto, after, len(msg))
				c.Begin(desc)
				c.Count("long-error-probe")
				got := safely(func() string {
					v := callClient(proto, "server", &inprocClient{h: h}, nil, [][]byte{{1}})
					var ce *connect.Error
					if !errors.As(v.err, &ce) {
						return fmt.Sprintf("no coded error: %v", v.err)
					}
					raw := "n/a"
					if proto != "connect" {
						raw = "decodes"
						if dec, err := percentDecodeStrict(ce.Meta().Get("Grpc-Message")); err != nil || dec != msg {
							raw = fmt.Sprintf("Grpc-Message does not decode to the message (%d wire bytes, err=%v)", len(ce.Meta().Get("Grpc-Message")), err)
						}
					}
					return fmt.Sprintf("code=%s message-intact=%v grpc-message=%s", ce.Code(), ce.Message() == msg, raw)
				})
				want := "code=internal message-intact=true grpc-message=decodes"
				if proto == "connect" {
					want = "code=internal message-intact=true grpc-message=n/a"
				}
				if got != want {
					key := "rt-error-long-message"
					if strings.Contains(got, "message-intact=true") {
						key = "wire-grpc-message-long"
					}
					c.Fail(key, desc, got, "a long error message arrives whole, and the Grpc-Message trailer decodes to it: "+want)
				}
			}
		}
	}
}

// percentDecodeStrict is the gRPC percent-decoding of the protocol document, restated: every %
// must be followed by two hex digits.
func percentDecodeStrict(s string) (string, error) {
	var out []byte
	for i := 0; i < len(s); i++ {
		if s[i] != '%' {
			out = append(out, s[i])
			continue
		}
		if i+2 >= len(s) {
			return "", errors.New("truncated escape")
		}
		v, err := strconv.ParseUint(s[i+1:i+3], 16, 8)
		if err != nil {
			return "", err
		}
		out = append(out, byte(v))
		i += 2
	}
	return string(out), nil
}

// errorContentTypeProbe: a unary Connect error is JSON - one Content-Type, application/json -
// also when the error's metadata carries a Content-Type of its own (a gateway that hands an
// upstream's error on as it is) (round 10, C05-mm).
func errorContentTypeProbe(c *Ctx) {
	for _, metaCT := range []string{"application/grpc+proto", "text/html"} {
		h := connect.NewUnaryHandler("/s/m", func(ctx context.Context, r *connect.Request[[]byte]) (*connect.Response[[]byte], error) {
			e := connect.NewError(connect.CodeUnavailable, errors.New("upstream down"))
			e.Meta().Set("Content-Type", metaCT)
			e.Meta().Set("X-Up", "u1")
			return nil, e
		}, connect.WithCodec(rawCodec{"raw"}))
		req := httptest.NewRequest(http.MethodPost, "/s/m", strings.NewReader("x"))
		req.Header.Set("Content-Type", "application/raw")
		rec := httptest.NewRecorder()
		h.ServeHTTP(rec, req)
		cts := rec.Result().Header.Values("Content-Type")
		desc := "unary Connect handler returns unavailable whose metadata carries Content-Type: " + metaCT
		c.Begin(desc)
		c.Count("error-content-type-probe")
		got := fmt.Sprintf("status=%d content-types=%q x-up=%q", rec.Code, cts, rec.Result().Header.Values("X-Up"))
		if want := `status=503 content-types=["application/json"] x-up=["u1"]`; got != want {
			c.Fail("wire-error-content-type", desc, got, "a unary Connect error is JSON under its HTTP status with exactly one Content-Type: "+want)
		}
	}
}

// earlyStatusProbe: the peer answers a large upload with a non-200 status and stops reading.
// The call fails with the code of that status - the failing Send is not the call's outcome
// (round 10, C06-mn).
func earlyStatusProbe(c *Ctx) {
	for _, proto := range []string{"connect", "grpc", "grpcweb"} {
		for _, kind := range []string{"unary", "server"} {
			desc := fmt.Sprintf("%s %s call uploading 8 MiB to a peer that answers 401 after the first 64 KiB and stops reading", proto, kind)
			c.Begin(desc)
			c.Count("early-status-probe")
			got := safely(func() string {
				hc := &earlyStatusClient{status: 401, after: 64 << 10}
				big := bytes.Repeat([]byte{9}, 8<<20)
				v := callClient2(proto, kind, hc, append(protoOpts(proto), connect.WithCodec(rawCodec{"raw"})), big)
				if v.err == nil {
					return "success"
				}
				return codeOrOKp(v.err)
			})
			if got != "unauthenticated" {
				c.Fail("client-early-status", desc, got, "a non-200 response that carries no protocol-level error takes its code from the HTTP status: unauthenticated")
			}
		}
	}
}

// earlyStatusClient reads `after` bytes of the request body, answers with a bare status and
// never reads on.
type earlyStatusClient struct {
	status int
	after  int
}

func (e *earlyStatusClient) Do(req *http.Request) (*http.Response, error) {
	_, _ = io.CopyN(io.Discard, req.Body, int64(e.after))
	return &http.Response{StatusCode: e.status, Status: strconv.Itoa(e.status) + " " + http.StatusText(e.status), Proto: "HTTP/1.1", ProtoMajor: 1, ProtoMinor: 1,
		Header: http.Header{"Content-Type": {"text/plain"}}, Body: io.NopCloser(strings.NewReader("no")), Request: req}, nil
}

func extraProbes(c *Ctx) {
	metadataProbes(c)
	failingCompressorProbe(c, "wire-error-mislabelled")
	malformedErrorBodyProbes(c)
	userCodecProbe(c)
	contentLengthProbes(c)
	unserializableErrorProbe(c)
	brokenDetailProbe(c)
	sharedBackingProbe(c)
	foreignDetailProbe(c)
	freshClientPoolProbe(c)
	transportFailureProbes(c)
	plainErrorAfterDeadlineProbe(c)
	headerBeforeReceiveProbe(c)
	codeTextProbes(c)
	terminatorLostProbes(c)
	truncatedErrorBodyProbes(c)
	requestWireProbes(c)
	sharedKeyProbes(c)
	forwardedErrorProbes(c)
	unconvertibleDetailProbe(c)
	cancelAtEndProbe(c)
	midStreamAccessorProbe(c)
	repeatedReceiveProbe(c)
	statusBeforeEncodingProbe(c)
	recoverPassThroughProbe(c)
	grpcPrefixedMetadataProbe(c)
	noResponseProbe(c)
	sendAfterCutProbe(c)
	non200GrpcStatusProbe(c)
	emptyWebTrailerProbe(c)
	paddedBinaryProbe(c)
	unrenderableDetailProbe(c)
	longErrorProbe(c)
	errorContentTypeProbe(c)
	earlyStatusProbe(c)
	// (1) every error a client API returns can be inspected as a Connect error — including the one
	// from closing a response whose body fails while being drained
	for _, proto := range []string{"connect", "grpc", "grpcweb"} {
		bc := &bodyClient{status: 200, header: http.Header{"Content-Type": {ctFor(proto, "server", "raw")}},
			body: &failingBody{data: append(frame(0, []byte{1}), frame(0, []byte{2})...), err: errTransport}}
		opts := []connect.ClientOption{connect.WithCodec(rawCodec{"raw"})}
		if proto == "grpc" {
			opts = append(opts, connect.WithGRPC())
		} else if proto == "grpcweb" {
			opts = append(opts, connect.WithGRPCWeb())
		}
		cl := connect.NewClient[[]byte, []byte](bc, "http://h/s/m", opts...)
		s, err := cl.CallServerStream(context.Background(), connect.NewRequest(&[]byte{}))
		c.Count("probe-close-error")
		if err == nil {
			s.Receive()
			if cerr := s.Close(); cerr != nil {
				var ce *connect.Error
				if !errors.As(cerr, &ce) {
					c.Fail("client-uncoded-close", "server stream on "+proto+": body fails while Close drains it", cerr.Error(), "an error returned by the client API cannot be inspected as a Connect error")
				} else if ce.Code() == 0 {
					c.Fail("client-zero-code", "close "+proto, cerr.Error(), "zero code")
				}
			}
		}
	}
	// (1b) a response body that dies with an HTTP/2 RST_STREAM (any code, NO_ERROR included) at any
	// offset is never a successful call
	rstNames := []string{"NO_ERROR", "PROTOCOL_ERROR", "INTERNAL_ERROR", "FLOW_CONTROL_ERROR", "SETTINGS_TIMEOUT", "STREAM_CLOSED", "FRAME_SIZE_ERROR",
		"REFUSED_STREAM", "CANCEL", "COMPRESSION_ERROR", "CONNECT_ERROR", "ENHANCE_YOUR_CALM", "INADEQUATE_SECURITY", "HTTP_1_1_REQUIRED"}
	for _, proto := range []string{"connect", "grpc", "grpcweb"} {
		for _, kind := range []string{"unary", "server"} {
			full := frame(0, []byte{1, 2, 3, 4, 5, 6})
			switch {
			case proto == "connect" && kind == "unary":
				full = []byte{1, 2, 3, 4, 5, 6, 7, 8}
			case proto == "connect":
				full = append(full, frame(2, []byte("{}"))...)
			case proto == "grpcweb":
				full = append(full, frame(0x80, []byte("grpc-status: 0\r\n"))...)
			}
			for _, name := range rstNames {
				for cut := 0; cut <= len(full); cut++ {
					if cut == len(full) && proto != "grpc" && !(proto == "connect" && kind == "unary") {
						continue // the terminator arrived completely: the reset comes too late to matter
					}
					rst := errors.New("stream error: stream ID 1; " + name + "; received from peer")
					bc := &bodyClient{status: 200, header: http.Header{"Content-Type": {ctFor(proto, kind, "raw")}}, body: &failingBody{data: append([]byte{}, full[:cut]...), err: rst}}
					v := callClient(proto, kind, bc, nil, [][]byte{{}})
					c.Count("probe-rst")
					if v.err == nil {
						c.Fail("term-rst-accepted", fmt.Sprintf("%s %s response reset with %s after %d of %d body bytes", proto, kind, name, cut, len(full)), showView(kind, v), "a response whose body was reset by the peer was reported as a successful call")
					} else if connect.CodeOf(v.err) == 0 {
						c.Fail("client-zero-code", "rst "+name, v.err.Error(), "zero code")
					}
				}
			}
		}
	}
	// (2) Content-Type echo for the bare gRPC media types (real protobuf messages)
	for _, ct := range []string{"application/grpc", "application/grpc-web", "application/grpc+proto", "application/grpc-web+json", "application/connect+proto", "application/proto", "application/json"} {
		h := connect.NewUnaryHandler("/s/m", func(ctx context.Context, r *connect.Request[wrapperspb.Int64Value]) (*connect.Response[wrapperspb.Int64Value], error) {
			return connect.NewResponse(&wrapperspb.Int64Value{Value: 1}), nil
		})
		if strings.Contains(ct, "connect+") {
			h = connect.NewClientStreamHandler("/s/m", func(ctx context.Context, s *connect.ClientStream[wrapperspb.Int64Value]) (*connect.Response[wrapperspb.Int64Value], error) {
				return connect.NewResponse(&wrapperspb.Int64Value{Value: 1}), nil
			})
		}
		body := frame(0, nil)
		if ct == "application/proto" {
			body = nil
		} else if ct == "application/json" {
			body = []byte("{}")
		} else if strings.HasSuffix(ct, "json") {
			body = frame(0, []byte("{}"))
		}
		req := httptest.NewRequest(http.MethodPost, "/s/m", bytes.NewReader(body))
		req.ProtoMajor, req.ProtoMinor = 2, 0
		req.Header["Content-Type"] = []string{ct}
		rec := httptest.NewRecorder()
		h.ServeHTTP(rec, req)
		c.Count("probe-content-type-echo")
		if got := rec.Result().Header.Get("Content-Type"); got != ct {
			c.Fail("wire-content-type-echo", "request Content-Type "+ct, got, "the response Content-Type must echo the request's")
		}
	}
}

// --- generators -----------------------------------------------------------------------------

var errorTexts = []string{"", "boom", "  leading and trailing blanks  ", "café 100% ✓", "nul\x00ctl\x01\x1f", "line\r\nbreak\ttab", "%41%zz%", "ends with percent %", "x", "del \x7f inside", "50%25 off, %41BC"}

func genHeader(r *Rng, keys []string) hdr {
	h := hdr{}
	n := r.Intn(4)
	for i := 0; i < n; i++ {
		k := keys[r.Intn(len(keys))]
		if _, ok := h[k]; ok {
			continue
		}
		nv := 1 + r.Intn(3)
		for j := 0; j < nv; j++ {
			var v string
			if strings.HasSuffix(k, "-Bin") {
				v = connect.EncodeBinaryHeader(r.Bytes(r.Intn(9)))
			} else {
				v = []string{"a", "b c", "v1,v2", "x=y; z", "0", "Value-" + strconv.Itoa(r.Intn(100))}[r.Intn(6)]
			}
			h[k] = append(h[k], v)
		}
	}
	return h
}

func genDetails(r *Rng) []string {
	var ds []string
	n := r.Intn(3)
	for i := 0; i < n; i++ {
		var a *anypb.Any
		switch r.Intn(3) {
		case 0:
			a, _ = anypb.New(wrapperspb.String("detail-" + strconv.Itoa(r.Intn(1000))))
		case 1:
			a, _ = anypb.New(wrapperspb.Int64(int64(r.Intn(100000))))
		default:
			a, _ = anypb.New(durationpb.New(1e9 * 3))
		}
		ds = append(ds, anyToDetail(a))
	}
	return ds
}

func showGoErr(g goErr) string {
	switch g.kind {
	case "plain", "plaineof", "plaintmo":
		return g.kind + ":" + hx([]byte(g.text))
	case "coded", "codedctx", "codedwrap", "codedeof", "codedjoin", "codedas", "codedunenc", "codedunrend":
		return g.kind + ":" + showWireErr(g.w) + "@" + showHdr(g.meta)
	}
	return g.kind
}

func hexList(bs [][]byte) string {
	if len(bs) == 0 {
		return "none"
	}
	parts := make([]string, len(bs))
	for i, b := range bs {
		parts[i] = hx(b)
	}
	return strings.Join(parts, ",")
}

func streamProto(c *Ctx) {
	if replayOp != "" {
		if strings.HasPrefix(replayOp, "serve") {
			serveOp(c, replayOp)
		} else {
			cdecOp(c, replayOp)
		}
		return
	}
	r := c.Rng
	protos := []string{"connect", "grpc", "grpcweb"}
	kinds := []string{"unary", "client", "server", "bidi"}
	hkeys := []string{"X-A", "X-Multi", "X-Data-Bin", "Trace-Id", "Total-Count", "Retry-After", "Content-Language"}
	tkeys := []string{"X-Trailer", "Trace-Id", "X-T-Bin", "Total-Count", "Transfer-Note", "Etag", "X-Trailer-Checksum", "Upstream-Trailer-Count"}
	mkeys := []string{"X-Err", "X-Multi", "X-Err-Bin", "Trace-Id", "X-Trailer", "Content-Language", "Content-Location"}
	reps := 4
	if c.Thorough() {
		reps = 300
	}
	var responses []struct {
		proto, kind string
		r           *sresp
	}
	for _, proto := range protos {
		for _, kind := range kinds {
			// every code once, every error text once, then random programs
			var results []goErr
			results = append(results, goErr{kind: "none"}, goErr{kind: "none"}, goErr{kind: "canceled"}, goErr{kind: "deadline"})
			for code := 1; code <= 16; code++ {
				results = append(results, goErr{kind: "coded", w: &wireErr{code: code, msg: errorTexts[r.Intn(len(errorTexts))], details: genDetails(r)}, meta: genHeader(r, mkeys)})
			}
			for _, txt := range errorTexts {
				results = append(results, goErr{kind: "coded", w: &wireErr{code: 1 + r.Intn(16), msg: txt, details: genDetails(r)}, meta: genHeader(r, mkeys)})
				results = append(results, goErr{kind: "plain", text: txt})
			}
			results = append(results, goErr{kind: "coded", w: &wireErr{code: 5, msg: strings.Repeat("long message ", 400)}, meta: hdr{}})
			// a handler that proxies an upstream error unchanged: its metadata carries the status keys
			results = append(results, goErr{kind: "coded", w: &wireErr{code: 5, msg: "proxied"}, meta: hdr{"Grpc-Status": {"5"}, "Grpc-Message": {"proxied"}, "X-Up": {"1"}}})
			for _, k := range []string{"codedctx", "codedwrap"} {
				results = append(results, goErr{kind: k, w: &wireErr{code: 14, msg: "backend did not answer", details: genDetails(r)}, meta: genHeader(r, mkeys)})
				results = append(results, goErr{kind: k, w: &wireErr{code: 1 + r.Intn(16), msg: errorTexts[r.Intn(len(errorTexts))]}, meta: genHeader(r, mkeys)})
			}
			// an Unknown-coded error whose cause is a context error keeps its metadata and details
			results = append(results, goErr{kind: "codedctx", w: &wireErr{code: 2, msg: "upstream gave up", details: genDetails(r)}, meta: hdr{"X-Err": {"a", "b"}, "X-Err-Bin": {connect.EncodeBinaryHeader([]byte{0, 1, 255})}}})
			// errors that wrap io.EOF or an I/O timeout are errors like any other
			results = append(results, goErr{kind: "codedeof", w: &wireErr{code: 15, msg: "backend closed early", details: genDetails(r)}, meta: genHeader(r, mkeys)})
			for _, k := range []string{"codedjoin", "codedas"} {
				results = append(results, goErr{kind: k, w: &wireErr{code: 9, msg: "precondition", details: genDetails(r)}, meta: genHeader(r, mkeys)})
			}
			results = append(results, goErr{kind: "plaineof", text: "read upstream: EOF"}, goErr{kind: "plaintmo", text: "read tcp 10.0.0.1:443: i/o timeout"})
			// errors whose details cannot be put on the wire: one that cannot be rendered as JSON
			// (an Any of a type this binary does not know, last in the list), one that cannot be
			// made into an Any at all
			for i := 0; i < 3; i++ {
				unknown := anyToDetail(&anypb.Any{TypeUrl: "type.googleapis.com/acme.v9.NotLinkedIn", Value: []byte{8, byte(1 + i)}})
				results = append(results, goErr{kind: "codedunrend", w: &wireErr{code: 1 + r.Intn(16), msg: errorTexts[r.Intn(len(errorTexts))], details: append(genDetails(r), unknown)}, meta: genHeader(r, mkeys)})
				results = append(results, goErr{kind: "codedunenc", w: &wireErr{code: 1 + r.Intn(16), msg: errorTexts[r.Intn(len(errorTexts))], details: genDetails(r)}, meta: genHeader(r, mkeys)})
			}
			for i := 0; i < reps; i++ {
				results = append(results, goErr{kind: "none"})
			}
			for _, res := range results {
				streaming := kind == "server" || kind == "bidi"
				nsend := 0
				switch {
				case !streaming && res.kind == "none":
					nsend = 1
				case streaming:
					nsend = []int{0, 0, 1, 3}[r.Intn(4)]
				}
				var sends [][]byte
				for i := 0; i < nsend; i++ {
					p := genPayload(r, 40)
					if len(p) > 0 && p[0] == 0xEE {
						p[0] = 1
					}
					sends = append(sends, p)
				}
				comp := r.Bool()
				min := []int{0, 0, 10, 1000}[r.Intn(4)]
				resp := "identity"
				if comp {
					resp = "rle"
				}
				h, t := genHeader(r, hkeys), genHeader(r, tkeys)
				if !streaming && res.kind != "none" {
					h, t = hdr{}, hdr{} // a unary handler that fails returns no response object to carry them
				}
				op := fmt.Sprintf("serve proto=%s kind=%s ct=%s names=%s resp=%s comp=%d min=%d hdr=%s trl=%s sends=%s result=%s",
					proto, kind, hx([]byte(ctFor(proto, kind, "raw"))), hx([]byte("rle,gzip")), hx([]byte(resp)), b2i(comp), min,
					showHdr(h), showHdr(t), hexList(sends), showGoErr(res))
				serveOp(c, op)
			}
		}
	}
	_ = responses
	mutatedResponses(c)
	extraProbes(c)
}

// mutatedResponses: structured mutations of valid responses and hostile ones (C06).
func mutatedResponses(c *Ctx) {
	r := c.Rng
	kinds := []string{"unary", "client", "server", "bidi"}
	det := genDetails(r)
	okErr := &wireErr{code: 5, msg: "not here", details: det}
	// status sweep without protocol-level error
	for _, proto := range []string{"connect", "grpc", "grpcweb"} {
		for _, kind := range kinds {
			ct := ctFor(proto, kind, "raw")
			for _, status := range []int{100, 101, 199, 201, 204, 206, 299, 300, 301, 304, 400, 401, 403, 404, 408, 409, 412, 413, 415, 429, 431, 500, 502, 503, 504, 505, 599} {
				cdecOp(c, cdecLine(proto, kind, &sresp{status: status, header: hdr{"Content-Type": {ct}}}))
			}
			// the HTTP status decides first: an encoding the client does not know changes nothing then
			for _, status := range []int{401, 404, 429, 503, 418, 201, 204, 206, 302, 304, 399, 100} {
				encH, _ := encHeaderFor(proto, kind)
				cdecOp(c, cdecLine(proto, kind, &sresp{status: status, header: hdr{"Content-Type": {ct}, encH: {"zstd"}}}))
			}
			// grpc-status variants in trailers / headers / web frames
			if proto != "connect" {
				for _, st := range []string{"0", "00", "000", "5", "05", "16", "17", "99", "4294967295", "4294967296", "4294967297", "-1", "+5", "5 ", "abc", "", "0x5"} {
					tr := hdr{"Grpc-Status": {st}, "Grpc-Message": {"m%20x"}}
					if st == "" {
						tr = hdr{"Grpc-Message": {"m"}}
					}
					one := []bodyItem{{kind: "f", flags: 0, data: []byte{1}}}
					if proto == "grpc" {
						cdecOp(c, cdecLine(proto, kind, &sresp{status: 200, header: hdr{"Content-Type": {ct}}, body: one, trailer: tr}))
						cdecOp(c, cdecLine(proto, kind, &sresp{status: 200, header: hdr{"Content-Type": {ct}}, trailer: tr}))
					} else {
						cdecOp(c, cdecLine(proto, kind, &sresp{status: 200, header: hdr{"Content-Type": {ct}}, body: append(append([]bodyItem{}, one...), bodyItem{kind: "web", header: tr})}))
						cdecOp(c, cdecLine(proto, kind, &sresp{status: 200, header: hdr{"Content-Type": {ct}}, body: []bodyItem{{kind: "web", header: tr}}}))
					}
					hh := hdr{"Content-Type": {ct}}
					for k, v := range tr {
						hh[k] = v
					}
					cdecOp(c, cdecLine(proto, kind, &sresp{status: 200, header: hh}))
				}
				// an explicit identity encoding (legal; connect-go handlers omit the header instead)
				for _, encv := range []string{"identity", "rle", "gzip", "zz"} {
					one := []bodyItem{{kind: "f", flags: 0, data: []byte{1, 2}}}
					okTr := hdr{"Grpc-Status": {"0"}}
					if proto == "grpc" {
						cdecOp(c, cdecLine(proto, kind, &sresp{status: 200, header: hdr{"Content-Type": {ct}, "Grpc-Encoding": {encv}}, body: one, trailer: okTr}))
					} else {
						cdecOp(c, cdecLine(proto, kind, &sresp{status: 200, header: hdr{"Content-Type": {ct}, "Grpc-Encoding": {encv}}, body: append(append([]bodyItem{}, one...), bodyItem{kind: "web", header: okTr})}))
					}
				}
				// Grpc-Message variants: truncated, invalid and non-UTF-8 percent escapes (the value is
				// peer-controlled; decoding it must not panic and yields what the model's decoder yields)
				for _, gm := range []string{"%", "%2", "a%20b%2", "a%20b%", "%zz", "%2G", "%C3%28", "%00", "x%FFy", "%E2%82%AC", "100%", "%%", "a%20", "plain text", " lead", "trail ", "\tTab", ""} {
					tr := hdr{"Grpc-Status": {"9"}, "Grpc-Message": {gm}}
					if proto == "grpc" {
						cdecOp(c, cdecLine(proto, kind, &sresp{status: 200, header: hdr{"Content-Type": {ct}}, body: []bodyItem{{kind: "f", data: []byte{1}}}, trailer: tr}))
					} else {
						cdecOp(c, cdecLine(proto, kind, &sresp{status: 200, header: hdr{"Content-Type": {ct}}, body: []bodyItem{{kind: "f", data: []byte{1}}, {kind: "web", header: tr}}}))
					}
					hh := hdr{"Content-Type": {ct}}
					for k, v := range tr {
						hh[k] = v
					}
					cdecOp(c, cdecLine(proto, kind, &sresp{status: 200, header: hh}))
				}
				// details-bin variants: code 0, mismatching code, with details
				for _, w := range []*wireErr{{code: 0, msg: "m"}, {code: 7, msg: "from details", details: det}, okErr} {
					bin := connect.EncodeBinaryHeader([]byte(showWireErr(w))) // toy form; serialize() converts
					tr := hdr{"Grpc-Status": {"5"}, "Grpc-Message": {"x"}, detailsBinKey: {bin}}
					if proto == "grpc" {
						cdecOp(c, cdecLine(proto, kind, &sresp{status: 200, header: hdr{"Content-Type": {ct}}, trailer: tr}))
					} else {
						cdecOp(c, cdecLine(proto, kind, &sresp{status: 200, header: hdr{"Content-Type": {ct}}, body: []bodyItem{{kind: "f", data: []byte{2}}, {kind: "web", header: tr}}}))
					}
				}
				// a message over the client's read limit followed by a long tail of small ones and
				// the server's verdict: what the client reports does not depend on how many reads
				// the tail takes (cdecOp delivers the response in 1- and 3-byte reads as well)
				if kind == "server" || kind == "bidi" {
					for _, st := range []string{"0", "8"} {
						items := []bodyItem{{kind: "f", data: bytes.Repeat([]byte{7}, 20)}}
						for i := 0; i < 300; i++ {
							items = append(items, bodyItem{kind: "f", data: []byte{byte(i), 1, 2, 3, 4}})
						}
						tr := hdr{"Grpc-Status": {st}, "Grpc-Message": {"over%20quota"}, "X-After": {"tail"}}
						if proto == "grpc" {
							cdecOp(c, cdecLineMax(proto, kind, 8, &sresp{status: 200, header: hdr{"Content-Type": {ct}}, body: items, trailer: tr}))
						} else {
							cdecOp(c, cdecLineMax(proto, kind, 8, &sresp{status: 200, header: hdr{"Content-Type": {ct}}, body: append(items, bodyItem{kind: "web", header: tr})}))
						}
					}
				}
				// the status where this protocol does not look for it: gRPC-Web's terminator is the
				// trailer frame in the body - real HTTP trailers (a proxy's, another server's) do not
				// stand in for it
				if proto == "grpcweb" {
					for _, st := range []string{"0", "5"} {
						cdecOp(c, cdecLine(proto, kind, &sresp{status: 200, header: hdr{"Content-Type": {ct}}, body: []bodyItem{{kind: "f", data: []byte{1}}}, trailer: hdr{"Grpc-Status": {st}, "X-T": {"1"}}}))
						cdecOp(c, cdecLine(proto, kind, &sresp{status: 200, header: hdr{"Content-Type": {ct}}, trailer: hdr{"Grpc-Status": {st}}}))
					}
				}
				// "grpc-status: 0" already in the headers (the trailers-only form of success), and yet
				// a body follows - complete, cut inside an envelope, or not an envelope at all
				for _, b := range [][]bodyItem{
					{{kind: "f", data: []byte{1}}},
					{{kind: "f", flags: 1, data: []byte{2, 7}}}, // marked compressed, no encoding agreed
					{{kind: "f", flags: 64, data: []byte{1}}},   // a flag nobody defines
					{{kind: "f", data: []byte{1}}, {kind: "f", flags: 1, data: []byte{2, 7}}},
				} {
					cdecOp(c, cdecLine(proto, kind, &sresp{status: 200, header: hdr{"Content-Type": {ct}, "Grpc-Status": {"0"}}, body: b}))
				}
				// a response the client refuses at once (HTTP status, an encoding it does not know)
				// whose HTTP trailers are there already (an in-memory transport; net/http's fill
				// them in when the body has been read): an explicit error in them is the server's
				// word and wins over the refusal; anything else does not
				for _, st := range []string{"5", "0", "abc", ""} {
					tr := hdr{"Grpc-Status": {st}, "Grpc-Message": {"nope"}, "X-Tr": {"1"}}
					if st == "" {
						tr = hdr{"X-Tr": {"1"}}
					}
					for _, status := range []int{503, 404, 204} {
						cdecOp(c, cdecLine(proto, kind, &sresp{status: status, header: hdr{"Content-Type": {ct}, "X-H": {"1"}}, trailer: tr}))
						cdecOp(c, cdecLine(proto, kind, &sresp{status: status, header: hdr{"Content-Type": {ct}}, body: []bodyItem{{kind: "f", data: []byte{1}}}, trailer: tr}))
						if proto == "grpcweb" {
							cdecOp(c, cdecLine(proto, kind, &sresp{status: status, header: hdr{"Content-Type": {ct}}, body: []bodyItem{{kind: "f", data: []byte{1}}, {kind: "web", header: tr}}}))
						}
					}
					cdecOp(c, cdecLine(proto, kind, &sresp{status: 200, header: hdr{"Content-Type": {ct}, "Grpc-Encoding": {"zstd"}, "X-H": {"1"}}, trailer: tr}))
					cdecOp(c, cdecLine(proto, kind, &sresp{status: 200, header: hdr{"Content-Type": {ct}, "Grpc-Encoding": {"zstd"}}, body: []bodyItem{{kind: "f", data: []byte{1}}}, trailer: tr}))
				}
				// missing terminator
				cdecOp(c, cdecLine(proto, kind, &sresp{status: 200, header: hdr{"Content-Type": {ct}}, body: []bodyItem{{kind: "f", data: []byte{1}}}}))
				cdecOp(c, cdecLine(proto, kind, &sresp{status: 200, header: hdr{"Content-Type": {ct}}}))
			} else if kind == "unary" {
				for _, status := range []int{400, 403, 404, 500, 503, 201} {
					for _, w := range []*wireErr{okErr, {code: 0, msg: "no code"}, {code: 0}, {code: 17, msg: "out of range"}, {code: 2}} {
						cdecOp(c, cdecLine(proto, kind, &sresp{status: status, header: hdr{"Content-Type": {"application/json"}, "X-H": {"1"}, "Trailer-X-T": {"2"}, "Trailer-Trace-Id": {"3"}}, body: []bodyItem{{kind: "ej", err: w}}}))
					}
					cdecOp(c, cdecLine(proto, kind, &sresp{status: status, header: hdr{"Content-Type": {"application/json"}}, body: []bodyItem{{kind: "raw", data: []byte("not json")}}}))
				}
				for _, enc := range []string{"rle", "gzip", "identity", "br"} {
					cdecOp(c, cdecLine(proto, kind, &sresp{status: 404, header: hdr{"Content-Type": {"application/json"}, "Content-Encoding": {enc}}, body: []bodyItem{{kind: "ejz", err: okErr}}}))
				}
				// an error longer than the client's read limit is still the peer's error (the limit is
				// about messages; the error body is not one)
				for _, lim := range []int{16, 64, 300} {
					long := &wireErr{code: 8, msg: strings.Repeat("quota exceeded for tenant; ", 20), details: det}
					cdecOp(c, cdecLineMax(proto, kind, lim, &sresp{status: 429, header: hdr{"Content-Type": {"application/json"}, "X-H": {"1"}}, body: []bodyItem{{kind: "ej", err: long}}}))
					cdecOp(c, cdecLineMax(proto, kind, lim, &sresp{status: 429, header: hdr{"Content-Type": {"application/json"}, "Content-Encoding": {"gzip"}}, body: []bodyItem{{kind: "ejz", err: long}}}))
				}
				cdecOp(c, cdecLine(proto, kind, &sresp{status: 200, header: hdr{"Content-Type": {ct}, "Content-Encoding": {"br"}}, body: []bodyItem{{kind: "raw", data: []byte{1}}}}))
				cdecOp(c, cdecLine(proto, kind, &sresp{status: 200, header: hdr{"Content-Type": {ct}, "Content-Encoding": {"rle"}}, body: []bodyItem{{kind: "raw", data: rleCompress([]byte{1, 1, 1})}}}))
				cdecOp(c, cdecLine(proto, kind, &sresp{status: 200, header: hdr{"Content-Type": {ct}, "Content-Encoding": {"rle"}}, body: []bodyItem{{kind: "raw", data: []byte{9}}}}))
			} else {
				// end-of-stream variants
				for _, w := range []*wireErr{nil, okErr, {code: 0, msg: "zero"}, {code: 0}, {code: 99, msg: "big"}} {
					for _, meta := range []hdr{{}, {"X-Lower": {"a"}}, {"x-lower": {"a", "b"}}, {"x-lower": {"a"}, "X-Lower": {"b"}}, {"TRACE-ID": {"t"}}} {
						items := []bodyItem{{kind: "f", data: []byte{1}}, {kind: "end", err: w, header: meta}}
						cdecOp(c, cdecLine(proto, kind, &sresp{status: 200, header: hdr{"Content-Type": {ct}, "X-H": {"1"}}, body: items}))
						cdecOp(c, cdecLine(proto, kind, &sresp{status: 200, header: hdr{"Content-Type": {ct}}, body: items[1:]}))
					}
				}
				cdecOp(c, cdecLine(proto, kind, &sresp{status: 200, header: hdr{"Content-Type": {ct}}, body: []bodyItem{{kind: "f", data: []byte{1}}}}))
				cdecOp(c, cdecLine(proto, kind, &sresp{status: 200, header: hdr{"Content-Type": {ct}}}))
				cdecOp(c, cdecLine(proto, kind, &sresp{status: 200, header: hdr{"Content-Type": {ct}, "Connect-Content-Encoding": {"identity"}}, body: []bodyItem{{kind: "f", data: []byte{1, 2}}, {kind: "end", header: hdr{}}}}))
				cdecOp(c, cdecLine(proto, kind, &sresp{status: 200, header: hdr{"Content-Type": {ct}, "Connect-Content-Encoding": {"br"}}, body: []bodyItem{{kind: "end", header: hdr{}}}}))
				cdecOp(c, cdecLine(proto, kind, &sresp{status: 200, header: hdr{"Content-Type": {ct}}, body: []bodyItem{{kind: "f", flags: 1, data: []byte{3, 7}}, {kind: "end", header: hdr{}}}}))
				cdecOp(c, cdecLine(proto, kind, &sresp{status: 200, header: hdr{"Content-Type": {ct}, "Connect-Content-Encoding": {"rle"}}, body: []bodyItem{{kind: "f", flags: 1, data: []byte{3, 7}}, {kind: "end", header: hdr{}}}}))
			}
		}
	}
	// client-side read limits at every position, with and without a negotiated response encoding
	for _, proto := range []string{"connect", "grpc", "grpcweb"} {
		for _, kind := range kinds {
			ct := ctFor(proto, kind, "raw")
			encH, _ := encHeaderFor(proto, kind)
			for _, max := range []int{32, 64} { // terminator envelopes ("{}", "Grpc-Status: 0") stay below the limit
				for _, size := range []int{max - 1, max, max + 1, 3 * max} {
					for _, negotiated := range []string{"", "rle", "gzip"} {
						for pos := 0; pos < 2; pos++ {
							h := hdr{"Content-Type": {ct}}
							if negotiated != "" {
								h[encH] = []string{negotiated}
							}
							payload := bytes.Repeat([]byte{0x42}, size)
							var items []bodyItem
							if proto == "connect" && kind == "unary" {
								if pos == 1 {
									continue
								}
								items = []bodyItem{{kind: "raw", data: payload}}
								if negotiated == "rle" {
									items = []bodyItem{{kind: "raw", data: rleCompress(payload)}}
								} else if negotiated == "gzip" {
									continue
								}
							} else {
								for j := 0; j < pos; j++ {
									items = append(items, bodyItem{kind: "f", data: []byte{1}})
								}
								items = append(items, bodyItem{kind: "f", data: payload})
								if negotiated == "rle" && size%2 == 0 {
									items[len(items)-1] = bodyItem{kind: "f", flags: 1, data: rleCompress(payload)}
								}
								switch proto {
								case "connect":
									items = append(items, bodyItem{kind: "end", header: hdr{}})
								case "grpcweb":
									items = append(items, bodyItem{kind: "web", header: hdr{"Grpc-Status": {"0"}}})
								}
							}
							resp := &sresp{status: 200, header: h, body: items}
							if proto == "grpc" {
								resp.trailer = hdr{"Grpc-Status": {"0"}}
							}
							cdecOp(c, cdecLineMax(proto, kind, max, resp))
						}
					}
				}
			}
		}
	}
	sort.Strings(kinds)
}
