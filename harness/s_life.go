package main

import (
	"bytes"
	"context"
	"crypto/tls"
	"errors"
	"fmt"
	"io"
	"net/http"
	"net/http/httptest"
	"net/url"
	"runtime"
	"strconv"
	"strings"
	"sync"
	"sync/atomic"
	"time"

	connect "github.com/bufbuild/connect-go"
)

// S-cflow / S-cancel (C15) and S-life (C14): error-code flow through real clients with scripted
// transports, and lifecycle / cancellation scenarios against real HTTP/1.1 and HTTP/2 servers,
// every API call under a watchdog.

func init() {
	register("cancel", "C15", streamCancel)
	register("life", "C14", streamLife)
}

func goErrorFor(name string) error {
	switch {
	case name == "canceled":
		return context.Canceled
	case name == "deadline":
		return context.DeadlineExceeded
	case name == "url-canceled":
		return &url.Error{Op: "Post", URL: "http://h/s/m", Err: context.Canceled}
	case name == "url-deadline":
		return &url.Error{Op: "Post", URL: "http://h/s/m", Err: context.DeadlineExceeded}
	case name == "wrapped-canceled":
		return fmt.Errorf("outer: %w", fmt.Errorf("inner: %w", context.Canceled))
	case name == "opaque":
		return errors.New("connection reset by peer")
	case name == "cause":
		// what context.Cause reports for a context ended with a cause of the application's own
		return errors.New("budget for this tenant exhausted")
	case name == "url-cause":
		return &url.Error{Op: "Post", URL: "http://h/s/m", Err: errors.New("budget for this tenant exhausted")}
	case name == "closedpipe":
		return io.ErrClosedPipe
	case name == "eof":
		return io.EOF
	case name == "ueof":
		return io.ErrUnexpectedEOF
	case strings.HasPrefix(name, "rst:"):
		return errors.New("stream error: stream ID 3; " + name[4:] + "; received from peer")
	case strings.HasPrefix(name, "url-rst:"):
		return &url.Error{Op: "Post", URL: "http://h/s/m", Err: errors.New("stream error: stream ID 3; " + name[8:] + "; received from peer")}
	}
	panic("bad error name " + name)
}

// detachedClient forwards every request with a context of its own, the way an intermediary does:
// the upstream request does not end when the caller's context does.
type detachedClient struct{ inner connect.HTTPClient }

func (d detachedClient) Do(req *http.Request) (*http.Response, error) {
	return d.inner.Do(req.Clone(context.Background()))
}

// noReadFailingDo fails like a refused connection: the request body is never read.
type noReadFailingDo struct{ err error }

func (f noReadFailingDo) Do(req *http.Request) (*http.Response, error) { return nil, f.err }

type failingDo struct {
	err    error
	before func() // runs right before the failure is reported
}

func (f failingDo) Do(req *http.Request) (*http.Response, error) {
	go func() { _, _ = io.Copy(io.Discard, req.Body) }()
	if f.before != nil {
		f.before()
	}
	return nil, f.err
}

func cflowOp(c *Ctx, op string) {
	c.Begin(op)
	a := kvArgs(strings.Fields(op))
	proto := a["proto"]
	ans := safely(func() string {
		var hc connect.HTTPClient
		e := goErrorFor(a["err"])
		// done=: the call's context ends (that way) just before the transport reports e - as
		// net/http does with the context's cause, which need not wrap either sentinel
		ctx, cancel := context.WithCancel(context.Background())
		defer cancel()
		var before func()
		switch a["done"] {
		case "canceled":
			before = cancel
		case "deadline":
			ctx, cancel = context.WithTimeout(context.Background(), 30*time.Millisecond)
			defer cancel()
			before = func() { <-ctx.Done() }
		}
		switch {
		case a["point"] == "do":
			hc = failingDo{e, before}
		default:
			parts := strings.Split(a["point"], ":")
			n := atoi(parts[1])
			body := frame(0, []byte{1})
			switch parts[0] {
			case "prefix":
				body = append(body, envPrefix(0, 10)[:n]...)
			case "discard":
				// a message over the client's read limit (8), n bytes of which arrive (F19)
				body = append(body, envPrefix(0, 100)...)
				body = append(body, bytes.Repeat([]byte{7}, n)...)
			default:
				body = append(body, envPrefix(0, 10)...)
				body = append(body, bytes.Repeat([]byte{7}, n)...)
			}
			hc = &bodyClient{status: 200, header: http.Header{"Content-Type": {ctFor(proto, "server", "raw")}}, body: &failingBody{data: body, err: e, before: before}}
		}
		opts := []connect.ClientOption{connect.WithCodec(rawCodec{"raw"})}
		if strings.HasPrefix(a["point"], "discard") {
			opts = append(opts, connect.WithReadMaxBytes(8))
		}
		if proto == "grpc" {
			opts = append(opts, connect.WithGRPC())
		} else if proto == "grpcweb" {
			opts = append(opts, connect.WithGRPCWeb())
		}
		cl := connect.NewClient[[]byte, []byte](hc, "http://h/s/m", opts...)
		conn := cl.CallBidiStream(ctx)
		_ = conn.Send(&[]byte{})
		_ = conn.CloseRequest()
		if strings.HasPrefix(a["point"], "close") {
			// CloseResponse drains what is left of the body, and that drain fails (F26, F27)
			if _, err := conn.Receive(); err != nil {
				return "first receive: " + codeName(err)
			}
			err := conn.CloseResponse()
			if err == nil {
				return "close=0"
			}
			var ce *connect.Error
			if !errors.As(err, &ce) {
				return "uncoded " + err.Error()
			}
			return fmt.Sprintf("close=%d", ce.Code())
		}
		var codes []connect.Code
		okSeen := 0
		for i := 0; i < 4 && len(codes) < 2; i++ {
			_, err := conn.Receive()
			if err == nil {
				okSeen++
				continue
			}
			var ce *connect.Error
			if !errors.As(err, &ce) {
				return "uncoded " + err.Error()
			}
			codes = append(codes, ce.Code())
		}
		_ = conn.CloseResponse()
		if len(codes) < 2 {
			return fmt.Sprintf("only %d errors", len(codes))
		}
		return fmt.Sprintf("first=%d second=%d", codes[0], codes[1])
	})
	// oracle: a context error entering anywhere surfaces as canceled / deadline_exceeded, twice
	want := 0
	switch a["err"] {
	case "canceled", "url-canceled", "wrapped-canceled":
		want = 1
	case "deadline", "url-deadline":
		want = 4
	}
	if want != 0 && a["done"] == "" && strings.HasPrefix(a["point"], "close") {
		if ans != fmt.Sprintf("close=%d", want) {
			c.Fail("cancel-code-flow", op, ans, fmt.Sprintf("a context error met while CloseResponse drains the body must surface as code %d", want))
		}
	} else if want != 0 && a["done"] == "" && ans != fmt.Sprintf("first=%d second=%d", want, want) {
		c.Fail("cancel-code-flow", op, ans, fmt.Sprintf("a context error met at %s must surface as code %d on this and on every later operation", a["point"], want))
	}
	if wantDone := map[string]int{"canceled": 1, "deadline": 4}[a["done"]]; wantDone != 0 && strings.HasPrefix(a["point"], "close") {
		if ans != fmt.Sprintf("close=%d", wantDone) {
			c.Fail("cancel-code-flow", op, ans, fmt.Sprintf("the call's context had ended (%s) when draining the response failed: CloseResponse must report code %d", a["done"], wantDone))
		}
	} else if wantDone != 0 && ans != fmt.Sprintf("first=%d second=%d", wantDone, wantDone) {
		c.Fail("cancel-code-flow", op, ans, fmt.Sprintf("the call's context had ended (%s) when the transport failed at %s: this and every later operation must report code %d, whatever the transport's error looks like", a["done"], a["point"], wantDone))
	}
	if (strings.Contains(ans, "=0") && ans != "close=0") || strings.HasPrefix(ans, "uncoded") || strings.HasPrefix(ans, "PANIC") {
		c.Fail("cancel-bad-error", op, ans, "operation failed with the zero code, an uncoded error or a panic")
	}
	c.Count("cflow:" + a["point"][:2])
	c.Emit(op, ans, true)
}

// failingCloseIcpt wraps client conns so that CloseRequest closes the inner conn and then
// reports an error of its own.
type failingCloseIcpt struct{}

func (failingCloseIcpt) WrapUnary(next connect.UnaryFunc) connect.UnaryFunc { return next }
func (failingCloseIcpt) WrapStreamingHandler(next connect.StreamingHandlerFunc) connect.StreamingHandlerFunc {
	return next
}
func (failingCloseIcpt) WrapStreamingClient(next connect.StreamingClientFunc) connect.StreamingClientFunc {
	return func(ctx context.Context, spec connect.Spec) connect.StreamingClientConn {
		return failingCloseConn{next(ctx, spec)}
	}
}

type failingCloseConn struct{ connect.StreamingClientConn }

func (f failingCloseConn) CloseRequest() error {
	_ = f.StreamingClientConn.CloseRequest()
	return connect.NewError(connect.CodeAborted, errors.New("audit log unavailable"))
}

// pickyCodec refuses to marshal messages that start with 0xBD.
type pickyCodec struct{ rawCodec }

func (p pickyCodec) Marshal(msg any) ([]byte, error) {
	if b, ok := msg.(*[]byte); ok && len(*b) > 0 && (*b)[0] == 0xBD {
		return nil, errors.New("codec: this message cannot be encoded")
	}
	return p.rawCodec.Marshal(msg)
}

// closeTrackingBody counts Close calls on a body whose reads eventually fail.
type closeTrackingBody struct {
	failingBody
	mu     sync.Mutex
	closed int
}

func (b *closeTrackingBody) Close() error { b.mu.Lock(); b.closed++; b.mu.Unlock(); return nil }
func (b *closeTrackingBody) closedCount() int {
	b.mu.Lock()
	defer b.mu.Unlock()
	return b.closed
}

// watchedBody blocks at the end of its data until released, then fails with err: the point at
// which a real transport would be stuck while the call's context ends.
type watchedBody struct {
	data    []byte
	err     error
	blocked chan struct{}
	release chan struct{}
	once    sync.Once
}

func (f *watchedBody) Read(p []byte) (int, error) {
	if len(f.data) == 0 {
		f.once.Do(func() { close(f.blocked) })
		<-f.release
		return 0, f.err
	}
	n := copy(p, f.data)
	f.data = f.data[n:]
	return n, nil
}
func (f *watchedBody) Close() error { return nil }

// watchClient reports when the library closed the request body under the "transport".
type watchClient struct {
	bodyClient
	pipeClosed chan struct{}
}

func (b *watchClient) Do(req *http.Request) (*http.Response, error) {
	go func() {
		_, _ = io.Copy(io.Discard, req.Body)
		close(b.pipeClosed)
	}()
	return &http.Response{StatusCode: b.status, Status: strconv.Itoa(b.status), Proto: "HTTP/2.0", ProtoMajor: 2, Header: b.header, Body: b.body, Request: req}, nil
}

// cwatchOp (fix F7): the context ends while Receive is blocked in the body read and the request
// side is open; the library must close the request body itself (the transport cannot see the
// context), and whatever error the body read then returns, Receive reports the context's code.
//
//	cwatch proto=P point=prefix:N|payload:N err=E ctx=canceled|deadline -> first=C second=C | norelease
//
// cwriteOp (K11): the response side of a bidi call has already ended (with the server's error,
// stored=<code>, or cleanly, stored=eof) while the request side is still open; the caller's
// context ends; the next Send reports the context's code, not whatever ended the response side
// earlier - and a Receive after that still reports the earlier outcome.
//
//	cwrite proto=P stored=C|eof ctx=cancel|deadline -> send=C [stored=C]
func cwriteOp(c *Ctx, op string) {
	c.Begin(op)
	a := kvArgs(strings.Fields(op))
	proto, how, ending := a["proto"], a["stored"], a["ctx"]
	arranged, sendEOF := true, false
	ans := safely(func() string {
		var cl *connect.Client[[]byte, []byte]
		if a["via"] == "transport" {
			// the call never reaches a handler: the transport fails (stored=14, unavailable)
			cl = connect.NewClient[[]byte, []byte](noReadFailingDo{errors.New("dial tcp: connection refused")}, "http://127.0.0.1:9/s/m", append(protoOpts(proto), connect.WithCodec(rawCodec{"raw"}))...)
		} else {
			srv := startServer(connect.NewBidiStreamHandler("/s/m", func(ctx context.Context, s *connect.BidiStream[[]byte, []byte]) error {
				if how != "eof" {
					return connect.NewError(connect.Code(atoi(how)), errors.New("quota"))
				}
				return nil
			}, connect.WithCodec(rawCodec{"raw"})), true)
			defer srv.Close()
			cl = connect.NewClient[[]byte, []byte](srv.Client(), srv.URL+"/s/m", append(protoOpts(proto), connect.WithCodec(rawCodec{"raw"}))...)
		}
		var ctx context.Context
		var cancel context.CancelFunc
		if ending == "cancel" {
			ctx, cancel = context.WithCancel(context.Background())
		} else {
			ctx, cancel = context.WithTimeout(context.Background(), 300*time.Millisecond)
		}
		defer cancel()
		s := cl.CallBidiStream(ctx)
		_ = s.Send(&[]byte{1})
		_, rerr := s.Receive()
		if (how == "eof") != errors.Is(rerr, io.EOF) || (how != "eof" && int(connect.CodeOf(rerr)) != atoi(how)) {
			arranged = false // the response side did not end as arranged (timing): nothing to judge
		}
		if ending == "cancel" {
			cancel()
		} else {
			<-ctx.Done()
		}
		serr := s.Send(&[]byte{2})
		sendEOF = errors.Is(serr, io.EOF)
		_, again := s.Receive()
		_ = s.CloseRequest()
		_ = s.CloseResponse()
		if how == "eof" {
			return fmt.Sprintf("send=%d", connect.CodeOf(serr))
		}
		return fmt.Sprintf("send=%d stored=%d", connect.CodeOf(serr), connect.CodeOf(again))
	})
	c.Count("cwrite:" + proto)
	if !arranged {
		return
	}
	want := map[string]string{"cancel": "send=1", "deadline": "send=4"}[ending]
	// where a handler has finished the call before the context ended, the documented stream-closed
	// error (wrapping io.EOF) is as good an answer as the context's code; where no handler ever
	// finished it (the transport failed), the context's code is the only one
	if !strings.HasPrefix(ans+" ", want+" ") && !(sendEOF && a["via"] != "transport") {
		c.Fail("cancel-send-after-response-ended", op, ans, "a Send issued after the context ended must report the context's code (or, once a handler has finished the call, the stream-closed error wrapping io.EOF), not the code of whatever ended the response side earlier")
	}
	c.Emit(op, ans, true)
}

func cwatchOp(c *Ctx, op string) {
	c.Begin(op)
	a := kvArgs(strings.Fields(op))
	proto := a["proto"]
	ans := safely(func() string {
		e := goErrorFor(a["err"])
		parts := strings.Split(a["point"], ":")
		n := atoi(parts[1])
		body := frame(0, []byte{1})
		switch parts[0] {
		case "prefix":
			body = append(body, envPrefix(0, 10)[:n]...)
		case "discard":
			body = append(body, envPrefix(0, 100)...)
			body = append(body, bytes.Repeat([]byte{7}, n)...)
		default:
			body = append(body, envPrefix(0, 10)...)
			body = append(body, bytes.Repeat([]byte{7}, n)...)
		}
		wb := &watchedBody{data: body, err: e, blocked: make(chan struct{}), release: make(chan struct{})}
		hc := &watchClient{bodyClient: bodyClient{status: 200, header: http.Header{"Content-Type": {ctFor(proto, "bidi", "raw")}}, body: wb}, pipeClosed: make(chan struct{})}
		copts := protoOpts(proto)
		if parts[0] == "discard" {
			copts = append(copts, connect.WithReadMaxBytes(8))
		}
		cl := connect.NewClient[[]byte, []byte](hc, "http://h/s/m", copts...)
		ctx, cancel := context.WithCancel(context.Background())
		if a["ctx"] == "deadline" {
			ctx, cancel = context.WithTimeout(context.Background(), 40*time.Millisecond)
		}
		defer cancel()
		conn := cl.CallBidiStream(ctx)
		if err := conn.Send(&[]byte{}); err != nil {
			return "send: " + codeName(err)
		}
		if _, err := conn.Receive(); err != nil {
			return "first receive: " + codeName(err)
		}
		type res struct{ err error }
		done := make(chan res, 1)
		go func() { _, err := conn.Receive(); done <- res{err} }()
		select {
		case <-wb.blocked:
		case r := <-done:
			close(wb.release)
			return "not blocked: " + codeName(r.err) // the context ended before the read began: nothing to decide
		case <-time.After(5 * time.Second):
			close(wb.release)
			return "body never read"
		}
		if a["ctx"] != "deadline" {
			cancel()
		}
		released := true
		select {
		case <-hc.pipeClosed:
		case <-time.After(3 * time.Second):
			released = false // the library left the transport stuck (F7)
		}
		close(wb.release)
		r := <-done
		_, err2 := conn.Receive()
		_ = conn.CloseRequest()
		_ = conn.CloseResponse()
		if !released {
			return "norelease"
		}
		var ce, ce2 *connect.Error
		if !errors.As(r.err, &ce) || !errors.As(err2, &ce2) {
			return fmt.Sprintf("uncoded %v / %v", r.err, err2)
		}
		return fmt.Sprintf("first=%d second=%d", ce.Code(), ce2.Code())
	})
	want := 1
	if a["ctx"] == "deadline" {
		want = 4
	}
	switch {
	case strings.HasPrefix(ans, "not blocked"):
		c.Count("cwatch:not-blocked")
		return
	case ans == "norelease":
		c.Fail("cancel-request-open-stuck", op, ans, "the context ended while Receive was blocked with the request side open, and the library did not release the transport (request body not closed within 3 s)")
	case ans != fmt.Sprintf("first=%d second=%d", want, want):
		c.Fail("cancel-code-flow", op, ans, fmt.Sprintf("the context ended during a blocked Receive: this and every later operation must report code %d", want))
	}
	c.Count("cwatch:" + a["point"][:2])
	c.Emit(op, ans, true)
}

// --- scenario helpers ----------------------------------------------------------------------

// watchdog runs f; false if it did not return within d.
func watchdog(d time.Duration, f func()) bool {
	done := make(chan struct{})
	go func() { defer close(done); f() }()
	select {
	case <-done:
		return true
	case <-time.After(d):
		return false
	}
}

func startServer(h http.Handler, h2 bool) *httptest.Server {
	srv := httptest.NewUnstartedServer(h)
	srv.EnableHTTP2 = h2
	srv.StartTLS()
	return srv
}

func protoOpts(proto string) []connect.ClientOption {
	opts := []connect.ClientOption{connect.WithCodec(rawCodec{"raw"})}
	switch proto {
	case "grpc":
		opts = append(opts, connect.WithGRPC())
	case "grpcweb":
		opts = append(opts, connect.WithGRPCWeb())
	}
	return opts
}

func codeName(err error) string {
	if err == nil {
		return "ok"
	}
	var ce *connect.Error
	if !errors.As(err, &ce) {
		return "uncoded:" + err.Error()
	}
	s := ce.Code().String()
	if errors.Is(err, io.EOF) {
		s += "+eof"
	}
	return s
}

type scenario struct {
	key  string
	desc string
	run  func() (got string, ok bool)
}

func runScenarios(c *Ctx, scs []scenario) {
	var wg sync.WaitGroup
	sem := make(chan struct{}, 8)
	for _, sc := range scs {
		wg.Add(1)
		sem <- struct{}{}
		go func(sc scenario) {
			defer wg.Done()
			defer func() { <-sem }()
			var got string
			ok := true
			finished := watchdog(15*time.Second, func() {
				defer func() {
					if r := recover(); r != nil {
						got, ok = fmt.Sprintf("PANIC %v", r), false
					}
				}()
				got, ok = sc.run()
			})
			c.Count(sc.key)
			if !finished {
				c.Fail(sc.key+"-hang", sc.desc, "watchdog expired", "the scenario did not finish: an API call hangs")
			} else if !ok {
				c.Fail(sc.key, sc.desc, got, "scenario oracle failed")
			}
		}(sc)
	}
	wg.Wait()
}

// --- C15 scenarios --------------------------------------------------------------------------

func streamCancel(c *Ctx) {
	if replayOp != "" && strings.HasPrefix(replayOp, "cwrite") {
		cwriteOp(c, replayOp)
		return
	}
	if replayOp != "" && strings.HasPrefix(replayOp, "cflow") {
		cflowOp(c, replayOp)
		return
	}
	if replayOp != "" && strings.HasPrefix(replayOp, "cwatch") {
		cwatchOp(c, replayOp)
		return
	}
	// deterministic error-code flow through real clients (model-compared)
	rsts := []string{"NO_ERROR", "CANCEL", "REFUSED_STREAM", "ENHANCE_YOUR_CALM", "INADEQUATE_SECURITY", "PROTOCOL_ERROR", "HTTP_1_1_REQUIRED", "STREAM_CLOSED"}
	for _, proto := range []string{"connect", "grpc", "grpcweb"} {
		var errs []string
		errs = append(errs, "canceled", "deadline", "url-canceled", "url-deadline", "wrapped-canceled", "opaque", "ueof", "eof")
		for _, r := range rsts {
			errs = append(errs, "rst:"+r, "url-rst:"+r)
		}
		for _, e := range errs {
			points := []string{"do", "prefix:0", "prefix:1", "prefix:4", "payload:0", "payload:3", "discard:0", "discard:5", "close:0", "close:3"}
			for _, p := range points {
				if p == "do" && (e == "eof" || e == "ueof") {
					continue
				}
				cflowOp(c, fmt.Sprintf("cflow proto=%s point=%s err=%s", proto, p, e))
			}
		}
		// the context has ended by the time the transport fails, and the transport's error does
		// not say so (F16)
		for _, e := range []string{"cause", "url-cause", "opaque", "closedpipe", "ueof", "rst:CANCEL", "url-rst:NO_ERROR", "rst:REFUSED_STREAM"} {
			for _, p := range []string{"do", "prefix:0", "prefix:3", "payload:0", "payload:2", "discard:0", "discard:7", "close:0", "close:4"} {
				if p == "do" && e == "ueof" {
					continue
				}
				for _, k := range []string{"canceled", "deadline"} {
					cflowOp(c, fmt.Sprintf("cflow proto=%s point=%s err=%s done=%s", proto, p, e, k))
				}
			}
		}
	}
	for _, proto := range []string{"connect", "grpc", "grpcweb"} {
		for _, e := range []string{"opaque", "ueof", "canceled", "url-deadline", "rst:CANCEL", "rst:NO_ERROR", "closedpipe"} {
			for _, p := range []string{"prefix:0", "prefix:2", "payload:0", "payload:4", "discard:0", "discard:6"} {
				for _, k := range []string{"canceled", "deadline"} {
					cwatchOp(c, fmt.Sprintf("cwatch proto=%s point=%s err=%s ctx=%s", proto, p, e, k))
				}
			}
		}
	}
	var scs []scenario
	for _, proto := range []string{"connect", "grpc", "grpcweb"} {
		proto := proto
		for _, h2 := range []bool{true, false} {
			h2 := h2
			tag := fmt.Sprintf("%s h2=%v", proto, h2)
			// K1: cancel, then two operations: both must report canceled
			scs = append(scs, scenario{"cancel-second-op", "cancel -> Send -> Receive -> Receive on a bidi/server stream, " + tag, func() (string, bool) {
				release := make(chan struct{})
				h := connect.NewBidiStreamHandler("/s/m", func(ctx context.Context, s *connect.BidiStream[[]byte, []byte]) error {
					_ = s.Send(&[]byte{1})
					select {
					case <-ctx.Done():
					case <-release:
					}
					return nil
				}, connect.WithCodec(rawCodec{"raw"}))
				if !h2 {
					return "skipped (bidi needs HTTP/2)", true
				}
				srv := startServer(h, true)
				defer srv.Close()
				defer close(release)
				cl := connect.NewClient[[]byte, []byte](srv.Client(), srv.URL+"/s/m", protoOpts(proto)...)
				ctx, cancel := context.WithCancel(context.Background())
				defer cancel()
				s := cl.CallBidiStream(ctx)
				if err := s.Send(&[]byte{1}); err != nil {
					return "first send: " + err.Error(), false
				}
				if _, err := s.Receive(); err != nil {
					return "first receive: " + err.Error(), false
				}
				cancel()
				e1 := codeName(s.Send(&[]byte{2}))
				_, r2 := s.Receive()
				_, r3 := s.Receive()
				got := fmt.Sprintf("send=%s receive=%s receive=%s", e1, codeName(r2), codeName(r3))
				ok := (e1 == "canceled" || strings.HasSuffix(e1, "+eof")) && codeName(r2) == "canceled" && codeName(r3) == "canceled"
				return got, ok
			}})
			// K2: the handler's context is cancelled when the client cancels (with and without deadline)
			for _, withDeadline := range []bool{false, true} {
				withDeadline := withDeadline
				scs = append(scs, scenario{"cancel-handler-ctx", fmt.Sprintf("client cancels while the handler runs (client deadline=%v), %s", withDeadline, tag), func() (string, bool) {
					entered := make(chan struct{})
					sawCancel := make(chan bool, 1)
					h := connect.NewServerStreamHandler("/s/m", func(ctx context.Context, r *connect.Request[[]byte], s *connect.ServerStream[[]byte]) error {
						_ = s.Send(&[]byte{1})
						close(entered)
						select {
						case <-ctx.Done():
							sawCancel <- true
						case <-time.After(3 * time.Second):
							sawCancel <- false
						}
						return ctx.Err()
					}, connect.WithCodec(rawCodec{"raw"}))
					srv := startServer(h, h2)
					defer srv.Close()
					cl := connect.NewClient[[]byte, []byte](srv.Client(), srv.URL+"/s/m", protoOpts(proto)...)
					ctx, cancel := context.WithCancel(context.Background())
					if withDeadline {
						ctx, cancel = context.WithTimeout(context.Background(), 30*time.Second)
					}
					defer cancel()
					s, err := cl.CallServerStream(ctx, connect.NewRequest(&[]byte{}))
					if err != nil {
						return err.Error(), false
					}
					s.Receive()
					<-entered
					cancel()
					rest := s.Receive()
					clientCode := codeName(s.Err())
					_ = s.Close()
					saw := <-sawCancel
					return fmt.Sprintf("handler saw cancellation=%v client=%s more=%v", saw, clientCode, rest), saw && clientCode == "canceled"
				}})
			}
			// K19 (F18): … also when the handler has written nothing yet. Over HTTP/1.1 net/http
			// watches the connection only once the request body has been read to its end: a
			// handler whose request is one enveloped message has to read on to that end.
			for _, kind := range []string{"unary", "server"} {
				kind := kind
				scs = append(scs, scenario{"cancel-handler-ctx", "client cancels while the handler runs and has sent nothing, " + kind + " " + tag, func() (string, bool) {
					entered := make(chan struct{}, 1)
					sawCancel := make(chan bool, 1)
					wait := func(ctx context.Context) {
						entered <- struct{}{}
						select {
						case <-ctx.Done():
							sawCancel <- true
						case <-time.After(3 * time.Second):
							sawCancel <- false
						}
					}
					var h *connect.Handler
					if kind == "unary" {
						h = connect.NewUnaryHandler("/s/m", func(ctx context.Context, r *connect.Request[[]byte]) (*connect.Response[[]byte], error) {
							wait(ctx)
							return nil, ctx.Err()
						}, connect.WithCodec(rawCodec{"raw"}))
					} else {
						h = connect.NewServerStreamHandler("/s/m", func(ctx context.Context, r *connect.Request[[]byte], s *connect.ServerStream[[]byte]) error {
							wait(ctx)
							return ctx.Err()
						}, connect.WithCodec(rawCodec{"raw"}))
					}
					srv := startServer(h, h2)
					defer srv.Close()
					cl := connect.NewClient[[]byte, []byte](srv.Client(), srv.URL+"/s/m", protoOpts(proto)...)
					ctx, cancel := context.WithCancel(context.Background())
					defer cancel()
					go func() {
						<-entered
						time.Sleep(20 * time.Millisecond)
						cancel()
					}()
					var err error
					if kind == "unary" {
						_, err = cl.CallUnary(ctx, connect.NewRequest(&[]byte{1, 2, 3}))
					} else {
						var s *connect.ServerStreamForClient[[]byte]
						s, err = cl.CallServerStream(ctx, connect.NewRequest(&[]byte{1, 2, 3}))
						if err == nil {
							for s.Receive() {
							}
							err = s.Err()
							_ = s.Close()
						}
					}
					saw := <-sawCancel
					return fmt.Sprintf("handler saw cancellation=%v client=%s", saw, codeName(err)), saw && codeName(err) == "canceled"
				}})
			}
			// K19b (round 11, C15-mp): the same with a read limit on the handler and a request message
			// of exactly that many bytes, whose terminating chunk arrives a little later (its own TCP
			// segment, a slow client): the handler still reads the request to its real end - a
			// reader that stops at "limit" bytes never lets net/http watch the connection.
			if !h2 && proto != "connect" {
				for _, kind := range []string{"unary", "server"} {
					kind := kind
					scs = append(scs, scenario{"cancel-handler-ctx", "HTTP/1.1 client goes away while the handler runs; read limit 64, request message of exactly 64 bytes, last chunk 150 ms late, " + kind + " " + tag, func() (string, bool) {
						entered := make(chan struct{}, 1)
						sawCancel := make(chan bool, 1)
						wait := func(ctx context.Context) {
							entered <- struct{}{}
							select {
							case <-ctx.Done():
								sawCancel <- true
							case <-time.After(3 * time.Second):
								sawCancel <- false
							}
						}
						var h *connect.Handler
						if kind == "unary" {
							h = connect.NewUnaryHandler("/s/m", func(ctx context.Context, r *connect.Request[[]byte]) (*connect.Response[[]byte], error) {
								wait(ctx)
								return nil, ctx.Err()
							}, connect.WithCodec(rawCodec{"raw"}), connect.WithReadMaxBytes(64))
						} else {
							h = connect.NewServerStreamHandler("/s/m", func(ctx context.Context, r *connect.Request[[]byte], s *connect.ServerStream[[]byte]) error {
								wait(ctx)
								return ctx.Err()
							}, connect.WithCodec(rawCodec{"raw"}), connect.WithReadMaxBytes(64))
						}
						srv := startServer(h, false)
						defer srv.Close()
						conn, err := tls.Dial("tcp", srv.Listener.Addr().String(), &tls.Config{InsecureSkipVerify: true})
						if err != nil {
							return "dial: " + err.Error(), false
						}
						defer conn.Close()
						msg := frame(0, bytes.Repeat([]byte{7}, 64))
						head := "POST /s/m HTTP/1.1\r\nHost: h\r\nContent-Type: " + ctFor(proto, kind, "raw") + "\r\nTransfer-Encoding: chunked\r\n\r\n"
						_, _ = conn.Write([]byte(head + fmt.Sprintf("%x\r\n", len(msg))))
						_, _ = conn.Write(msg)
						_, _ = conn.Write([]byte("\r\n"))
						time.Sleep(150 * time.Millisecond)
						_, _ = conn.Write([]byte("0\r\n\r\n"))
						select {
						case <-entered:
						case <-time.After(2 * time.Second):
							return "the handler never ran", false
						}
						time.Sleep(50 * time.Millisecond)
						_ = conn.Close()
						saw := <-sawCancel
						return fmt.Sprintf("handler saw cancellation=%v", saw), saw
					}})
				}
			}
			// K20 (F19): the context ends while Receive is throwing away the payload of a message
			// that is over the read limit (the peer has announced 256 bytes and sent 100 so far)
			for _, kind := range []string{"unary", "server"} {
				for _, ending := range []string{"cancel", "deadline"} {
					kind, ending := kind, ending
					scs = append(scs, scenario{"cancel-blocked-receive", "context ends (" + ending + ") while an over-limit response message is being discarded, " + kind + " " + tag, func() (string, bool) {
						release := make(chan struct{})
						raw := http.HandlerFunc(func(w http.ResponseWriter, r *http.Request) {
							go func() { _, _ = io.Copy(io.Discard, r.Body) }()
							w.Header().Set("Content-Type", ctFor(proto, kind, "raw"))
							w.WriteHeader(200)
							if !(proto == "connect" && kind == "unary") {
								_, _ = w.Write(envPrefix(0, 256))
							}
							_, _ = w.Write(bytes.Repeat([]byte{7}, 100))
							w.(http.Flusher).Flush()
							// (the server does not end the response when the client goes away: over
							// HTTP/1.1 + TLS a server that does can complete the chunked body between
							// the client's close_notify and the closing of its socket, and net/http then
							// hands the client a clean io.EOF - a truncated message, truthfully reported
							// as such, and not what this scenario is about)
							<-release
						})
						srv := startServer(raw, h2)
						defer srv.Close()
						defer close(release) // runs before srv.Close, which waits for the handler
						cl := connect.NewClient[[]byte, []byte](srv.Client(), srv.URL+"/s/m", append(protoOpts(proto), connect.WithReadMaxBytes(32))...)
						ctx, cancel := context.WithCancel(context.Background())
						if ending == "deadline" {
							ctx, cancel = context.WithTimeout(context.Background(), 200*time.Millisecond)
						} else {
							go func() { time.Sleep(200 * time.Millisecond); cancel() }()
						}
						defer cancel()
						var err error
						if kind == "unary" {
							_, err = cl.CallUnary(ctx, connect.NewRequest(&[]byte{1}))
						} else {
							var st *connect.ServerStreamForClient[[]byte]
							st, err = cl.CallServerStream(ctx, connect.NewRequest(&[]byte{1}))
							if err == nil {
								for st.Receive() {
								}
								err = st.Err()
								_ = st.Close()
							}
						}
						want := map[string]string{"cancel": "canceled", "deadline": "deadline_exceeded"}[ending]
						return codeName(err), codeName(err) == want
					}})
				}
			}
			// K21 (F25): a unary Connect call is answered with a non-200 status; the client reads
			// the error document straight from the response body, and the context ends during
			// that read. The call must report the context's code, not the fallback made from the
			// HTTP status of a body it could not finish reading.
			if proto == "connect" && h2 {
				for _, ending := range []string{"cancel", "deadline"} {
					ending := ending
					scs = append(scs, scenario{"cancel-blocked-receive", "context ends (" + ending + ") while the error document of a non-200 unary Connect response is being read", func() (string, bool) {
						ctx, cancel := context.WithCancel(context.Background())
						before := cancel
						if ending == "deadline" {
							ctx, cancel = context.WithTimeout(context.Background(), 40*time.Millisecond)
							before = func() { <-ctx.Done() }
						}
						defer cancel()
						hc := &bodyClient{status: 500, header: http.Header{"Content-Type": {"application/json"}},
							body: &failingBody{data: []byte(`{"code":"resource_exh`), err: errors.New("read tcp: connection reset by peer"), before: before}}
						cl := connect.NewClient[[]byte, []byte](hc, "http://h/s/m", connect.WithCodec(rawCodec{"raw"}))
						_, err := cl.CallUnary(ctx, connect.NewRequest(&[]byte{1}))
						want := map[string]string{"cancel": "canceled", "deadline": "deadline_exceeded"}[ending]
						return codeName(err), codeName(err) == want
					}})
				}
			}
			// K22 (F26): CloseResponse is draining a response the handler has not finished - the
			// request side is still open - when the context ends: it must return, with the
			// context's code, and the handler's context must end too.
			if h2 {
				for _, ending := range []string{"cancel", "deadline"} {
					ending := ending
					scs = append(scs, scenario{"cancel-blocked-close", "context ends (" + ending + ") while CloseResponse drains an unfinished bidi response, request side open, " + tag, func() (string, bool) {
						handlerDone := make(chan bool, 1)
						h := connect.NewBidiStreamHandler("/s/m", func(ctx context.Context, s *connect.BidiStream[[]byte, []byte]) error {
							_, _ = s.Receive()
							_ = s.Send(&[]byte{1})
							select {
							case <-ctx.Done():
								handlerDone <- true
							case <-time.After(4 * time.Second):
								handlerDone <- false
							}
							return ctx.Err()
						}, connect.WithCodec(rawCodec{"raw"}))
						srv := startServer(h, true)
						defer srv.Close()
						cl := connect.NewClient[[]byte, []byte](srv.Client(), srv.URL+"/s/m", protoOpts(proto)...)
						ctx, cancel := context.WithCancel(context.Background())
						if ending == "deadline" {
							ctx, cancel = context.WithTimeout(context.Background(), 400*time.Millisecond)
						}
						defer cancel()
						st := cl.CallBidiStream(ctx)
						if err := st.Send(&[]byte{1}); err != nil {
							return "send: " + err.Error(), false
						}
						if _, err := st.Receive(); err != nil {
							return "receive: " + err.Error(), false
						}
						closed := make(chan error, 1)
						go func() { closed <- st.CloseResponse() }()
						if ending == "cancel" {
							time.Sleep(150 * time.Millisecond)
							cancel()
						}
						want := map[string]string{"cancel": "canceled", "deadline": "deadline_exceeded"}[ending]
						select {
						case err := <-closed:
							saw := <-handlerDone
							// (a drain that ends because the handler finished cleanly is fine too)
							return fmt.Sprintf("CloseResponse=%s handler saw its context end=%v", codeName(err), saw), (codeName(err) == want || err == nil) && saw
						case <-time.After(2500 * time.Millisecond):
							_ = st.CloseRequest()
							return "CloseResponse still blocked 2.5 s after the context ended", false
						}
					}})
				}
			}
			// K23 (F35): a bidi call against an HTTP/1.1 server; Send, then the context ends while
			// the request side is open: Receive must return with the context's code. (The transport
			// waits for its write loop, which waits for the request pipe; nothing but the library
			// can close that.)
			if !h2 {
				for _, ending := range []string{"cancel", "deadline"} {
					ending := ending
					scs = append(scs, scenario{"cancel-h1-bidi", "Send, then the context ends (" + ending + "), then Receive, on a bidi call against an HTTP/1.1 server, " + proto, func() (string, bool) {
						h := connect.NewBidiStreamHandler("/s/m", func(ctx context.Context, s *connect.BidiStream[[]byte, []byte]) error { return nil }, connect.WithCodec(rawCodec{"raw"}))
						srv := startServer(h, false)
						defer srv.Close()
						cl := connect.NewClient[[]byte, []byte](srv.Client(), srv.URL+"/s/m", protoOpts(proto)...)
						ctx, cancel := context.WithCancel(context.Background())
						if ending == "deadline" {
							ctx, cancel = context.WithTimeout(context.Background(), 150*time.Millisecond)
						}
						defer cancel()
						st := cl.CallBidiStream(ctx)
						_ = st.Send(&[]byte{1})
						if ending == "cancel" {
							cancel()
						} else {
							<-ctx.Done()
						}
						done := make(chan error, 1)
						go func() { _, err := st.Receive(); done <- err }()
						want := map[string]string{"cancel": "canceled", "deadline": "deadline_exceeded"}[ending]
						select {
						case err := <-done:
							_ = st.CloseRequest()
							_ = st.CloseResponse()
							return "receive=" + codeName(err), codeName(err) == want
						case <-time.After(2500 * time.Millisecond):
							_ = st.CloseRequest()
							<-done
							_ = st.CloseResponse()
							return "Receive still blocked 2.5 s after the context ended", false
						}
					}})
				}
			}
			// K25 (F44; round 11, C15-mo): HTTP/2, a request larger than the peer's flow-control
			// windows, a server that has answered (headers out) and is not reading the request - it
			// goes away when its own context ends. The context ends while Send is blocked: the call
			// returns with the context's code - Send, Receive and the closing of the response.
			// (Neither the request pipe nor the response body ends by itself here: the transport
			// waits for window, the server for the client.)
			if h2 {
				for _, kind := range []string{"unary", "server"} {
					for _, ending := range []string{"cancel", "deadline"} {
						kind, ending := kind, ending
						scs = append(scs, scenario{"cancel-stalled-flow-control", "8 MiB request to a server that answers without reading it; the context ends (" + ending + ") while Send is blocked, " + kind + " " + tag, func() (string, bool) {
							release := make(chan struct{})
							raw := http.HandlerFunc(func(w http.ResponseWriter, r *http.Request) {
								w.Header().Set("Content-Type", ctFor(proto, kind, "raw"))
								w.WriteHeader(200)
								w.(http.Flusher).Flush()
								select {
								case <-r.Context().Done():
								case <-release:
								}
							})
							srv := startServer(raw, true)
							defer srv.Close()
							defer srv.CloseClientConnections()
							defer close(release)
							cl := connect.NewClient[[]byte, []byte](srv.Client(), srv.URL+"/s/m", protoOpts(proto)...)
							ctx, cancel := context.WithCancel(context.Background())
							if ending == "deadline" {
								ctx, cancel = context.WithTimeout(context.Background(), 300*time.Millisecond)
							} else {
								time.AfterFunc(300*time.Millisecond, cancel)
							}
							defer cancel()
							big := make([]byte, 8<<20)
							done := make(chan error, 1)
							go func() {
								if kind == "unary" {
									_, err := cl.CallUnary(ctx, connect.NewRequest(&big))
									done <- err
									return
								}
								st, err := cl.CallServerStream(ctx, connect.NewRequest(&big))
								if err != nil {
									done <- err
									return
								}
								for st.Receive() {
								}
								err = st.Err()
								_ = st.Close()
								done <- err
							}()
							want := map[string]string{"cancel": "canceled", "deadline": "deadline_exceeded"}[ending]
							select {
							case err := <-done:
								return "call=" + codeName(err), codeName(err) == want
							case <-time.After(3 * time.Second):
								return "the call has not returned 2.7 s after the context ended", false
							}
						}})
					}
				}
			}
			// K26 (F44, round 12): the same stall on a bidi call with a Receive pending: the handler
			// has sent one message and then neither reads nor writes until its context ends; the
			// client fills the window with Sends, a second Receive waits; the context ends: the
			// blocked Send returns (an error wrapping io.EOF is allowed) and the pending Receive
			// reports the context's code.
			if h2 {
				scs = append(scs, scenario{"cancel-stalled-flow-control", "bidi call out of flow-control window with a Receive pending; the context is cancelled, " + tag, func() (string, bool) {
					release := make(chan struct{})
					h := connect.NewBidiStreamHandler("/s/m", func(ctx context.Context, s *connect.BidiStream[[]byte, []byte]) error {
						if err := s.Send(&[]byte{1}); err != nil {
							return err
						}
						select {
						case <-ctx.Done():
						case <-release:
						}
						return nil
					}, connect.WithCodec(rawCodec{"raw"}))
					srv := startServer(h, true)
					defer srv.Close()
					defer srv.CloseClientConnections()
					defer close(release)
					cl := connect.NewClient[[]byte, []byte](srv.Client(), srv.URL+"/s/m", protoOpts(proto)...)
					ctx, cancel := context.WithCancel(context.Background())
					defer cancel()
					st := cl.CallBidiStream(ctx)
					if err := st.Send(&[]byte{1}); err != nil {
						return "first Send: " + codeName(err), false
					}
					if _, err := st.Receive(); err != nil {
						return "first Receive: " + codeName(err), false
					}
					chunk := make([]byte, 256<<10)
					sendDone := make(chan error, 1)
					go func() {
						var err error
						for i := 0; i < 64 && err == nil; i++ { // 16 MiB: more than any window
							err = st.Send(&chunk)
						}
						sendDone <- err
					}()
					recvDone := make(chan error, 1)
					go func() { _, err := st.Receive(); recvDone <- err }()
					time.Sleep(400 * time.Millisecond)
					cancel()
					var serr, rerr error
					select {
					case serr = <-sendDone:
					case <-time.After(3 * time.Second):
						return "the blocked Send has not returned 3 s after the context was cancelled", false
					}
					select {
					case rerr = <-recvDone:
					case <-time.After(3 * time.Second):
						return "the pending Receive has not returned 3 s after the context was cancelled", false
					}
					_ = st.CloseRequest()
					_ = st.CloseResponse()
					okSend := serr != nil && (codeName(serr) == "canceled" || errors.Is(serr, io.EOF))
					return fmt.Sprintf("send=%s receive=%s", codeName(serr), codeName(rerr)), okSend && codeName(rerr) == "canceled"
				}})
			}
			// K24 (round 10, C15-mm): the server has finished the call with an error of its own and
			// the rest of the response has arrived; the client cancels between two Receives: the
			// Receive that fails afterwards reports canceled, not the outcome it never asked for.
			if h2 {
				scs = append(scs, scenario{"cancel-second-op", "handler sends one message and fails with resource_exhausted; the client receives the message, cancels, receives again, " + tag, func() (string, bool) {
					h := connect.NewServerStreamHandler("/s/m", func(ctx context.Context, r *connect.Request[[]byte], s *connect.ServerStream[[]byte]) error {
						_ = s.Send(&[]byte{1})
						return connect.NewError(connect.CodeResourceExhausted, errors.New("quota"))
					}, connect.WithCodec(rawCodec{"raw"}))
					srv := startServer(h, true)
					defer srv.Close()
					cl := connect.NewClient[[]byte, []byte](srv.Client(), srv.URL+"/s/m", protoOpts(proto)...)
					ctx, cancel := context.WithCancel(context.Background())
					defer cancel()
					st, err := cl.CallServerStream(ctx, connect.NewRequest(&[]byte{1}))
					if err != nil {
						return "call: " + err.Error(), false
					}
					if !st.Receive() {
						return "first receive: " + codeName(st.Err()), false
					}
					time.Sleep(100 * time.Millisecond) // the rest of the response is there by now
					cancel()
					more := st.Receive()
					code := codeName(st.Err())
					_ = st.Close()
					return fmt.Sprintf("second receive delivered=%v err=%s", more, code), !more && code == "canceled"
				}})
			}
			// K3: deadline passes while waiting for the response headers
			for _, kind := range []string{"unary", "server"} {
				kind := kind
				scs = append(scs, scenario{"cancel-deadline-waiting", "deadline expires while the client waits for response headers, " + kind + " " + tag, func() (string, bool) {
					h := connect.NewUnaryHandler("/s/m", func(ctx context.Context, r *connect.Request[[]byte]) (*connect.Response[[]byte], error) {
						select {
						case <-ctx.Done():
							// the deadline also travels to the handler: answering "ok" here would
							// race with the client's own timer
							return nil, ctx.Err()
						case <-time.After(2 * time.Second):
						}
						return connect.NewResponse(&[]byte{1}), nil
					}, connect.WithCodec(rawCodec{"raw"}))
					var hh http.Handler = h
					if kind == "server" {
						hh = connect.NewServerStreamHandler("/s/m", func(ctx context.Context, r *connect.Request[[]byte], s *connect.ServerStream[[]byte]) error {
							select {
							case <-ctx.Done():
								return ctx.Err()
							case <-time.After(2 * time.Second):
							}
							return nil
						}, connect.WithCodec(rawCodec{"raw"}))
					}
					srv := startServer(hh, h2)
					defer srv.Close()
					cl := connect.NewClient[[]byte, []byte](srv.Client(), srv.URL+"/s/m", protoOpts(proto)...)
					ctx, cancel := context.WithTimeout(context.Background(), 120*time.Millisecond)
					defer cancel()
					var err error
					if kind == "unary" {
						_, err = cl.CallUnary(ctx, connect.NewRequest(&[]byte{}))
					} else {
						var s *connect.ServerStreamForClient[[]byte]
						s, err = cl.CallServerStream(ctx, connect.NewRequest(&[]byte{}))
						if err == nil {
							for s.Receive() {
							}
							err = s.Err()
							_ = s.Close()
						}
					}
					return codeName(err), codeName(err) == "deadline_exceeded"
				}})
			}
			// K4: cancel / deadline during a blocked Receive
			for _, deadline := range []bool{false, true} {
				deadline := deadline
				scs = append(scs, scenario{"cancel-blocked-receive", fmt.Sprintf("context ends (deadline=%v) while Receive is blocked, %s", deadline, tag), func() (string, bool) {
					// the handler outlives the client's context: whatever ends the blocked Receive is
					// the client's own context, not a status the handler managed to send first (the
					// deadline also travels to the handler, and under load its timer can win)
					release := make(chan struct{})
					h := connect.NewServerStreamHandler("/s/m", func(ctx context.Context, r *connect.Request[[]byte], s *connect.ServerStream[[]byte]) error {
						_ = s.Send(&[]byte{1})
						select {
						case <-release:
						case <-time.After(10 * time.Second):
						}
						return nil
					}, connect.WithCodec(rawCodec{"raw"}))
					srv := startServer(h, h2)
					defer srv.Close()
					defer close(release)
					cl := connect.NewClient[[]byte, []byte](srv.Client(), srv.URL+"/s/m", protoOpts(proto)...)
					ctx, cancel := context.WithCancel(context.Background())
					want := "canceled"
					if deadline {
						ctx, cancel = context.WithTimeout(context.Background(), 150*time.Millisecond)
						want = "deadline_exceeded"
					}
					defer cancel()
					s, err := cl.CallServerStream(ctx, connect.NewRequest(&[]byte{}))
					if err != nil {
						return err.Error(), false
					}
					if !s.Receive() {
						return "first receive failed: " + codeName(s.Err()), false
					}
					if !deadline {
						time.AfterFunc(100*time.Millisecond, cancel)
					}
					s.Receive()
					got := codeName(s.Err())
					// closing the response of a call whose context has ended: nothing, or that code again
					closed := codeName(s.Close())
					return got + " close=" + closed, got == want && (closed == "ok" || closed == want)
				}})
			}
			// K4b: the context ends and the very next thing the program does is close the response,
			// with messages still unread
			for _, deadline := range []bool{false, true} {
				deadline := deadline
				scs = append(scs, scenario{"cancel-then-close", fmt.Sprintf("context ends (deadline=%v), then Close with unread messages, %s", deadline, tag), func() (string, bool) {
					release := make(chan struct{})
					h := connect.NewServerStreamHandler("/s/m", func(ctx context.Context, r *connect.Request[[]byte], s *connect.ServerStream[[]byte]) error {
						_ = s.Send(&[]byte{1})
						select {
						case <-release:
						case <-time.After(10 * time.Second):
						}
						return nil
					}, connect.WithCodec(rawCodec{"raw"}))
					srv := startServer(h, h2)
					defer srv.Close()
					defer close(release)
					cl := connect.NewClient[[]byte, []byte](srv.Client(), srv.URL+"/s/m", protoOpts(proto)...)
					ctx, cancel := context.WithCancel(context.Background())
					want := "canceled"
					if deadline {
						ctx, cancel = context.WithTimeout(context.Background(), 150*time.Millisecond)
						want = "deadline_exceeded"
					}
					defer cancel()
					s, err := cl.CallServerStream(ctx, connect.NewRequest(&[]byte{}))
					if err != nil {
						return err.Error(), false
					}
					if !s.Receive() {
						return "first receive failed: " + codeName(s.Err()), false
					}
					if deadline {
						<-ctx.Done()
					} else {
						cancel()
					}
					closed := codeName(s.Close())
					return "close=" + closed, closed == "ok" || closed == want
				}})
			}
			// K5: context already cancelled / expired before the call
			for _, kind := range []string{"unary", "client", "server"} {
				kind := kind
				scs = append(scs, scenario{"cancel-before-call", "context cancelled before the call, " + kind + " " + tag, func() (string, bool) {
					ran := int32(0)
					srv := startServer(http.HandlerFunc(func(w http.ResponseWriter, r *http.Request) { atomic.AddInt32(&ran, 1) }), h2)
					defer srv.Close()
					ctx, cancel := context.WithCancel(context.Background())
					cancel()
					v := callClientCtx(ctx, proto, kind, srv.Client(), srv.URL+"/s/m")
					return codeName(v), codeName(v) == "canceled"
				}})
			}
		}
		// K7 (F7): bidi call, response started, request side still open: the context ends while
		// Receive is blocked reading the response body and the transport waits for request data
		for _, deadline := range []bool{false, true} {
			deadline := deadline
			scs = append(scs, scenario{"cancel-bidi-request-open", fmt.Sprintf("context ends (deadline=%v) while Receive is blocked and the request side is open, %s h2=true", deadline, proto), func() (string, bool) {
				release := make(chan struct{})
				h := connect.NewBidiStreamHandler("/s/m", func(ctx context.Context, s *connect.BidiStream[[]byte, []byte]) error {
					if _, err := s.Receive(); err != nil {
						return err
					}
					if err := s.Send(&[]byte{1}); err != nil {
						return err
					}
					select {
					case <-release:
					case <-time.After(10 * time.Second):
					}
					return nil
				}, connect.WithCodec(rawCodec{"raw"}))
				srv := startServer(h, true)
				defer srv.Close()
				defer close(release)
				cl := connect.NewClient[[]byte, []byte](srv.Client(), srv.URL+"/s/m", protoOpts(proto)...)
				ctx, cancel := context.WithCancel(context.Background())
				want := "canceled"
				if deadline {
					ctx, cancel = context.WithTimeout(context.Background(), 250*time.Millisecond)
					want = "deadline_exceeded"
				}
				defer cancel()
				s := cl.CallBidiStream(ctx)
				if err := s.Send(&[]byte{1}); err != nil {
					return "send: " + codeName(err), false
				}
				if _, err := s.Receive(); err != nil {
					return "first receive: " + codeName(err), false
				}
				if !deadline {
					time.AfterFunc(100*time.Millisecond, cancel)
				}
				done := make(chan error, 1)
				go func() { _, err := s.Receive(); done <- err }()
				select {
				case err := <-done:
					send := codeName(s.Send(&[]byte{2}))
					// closing the response while the request side is still open: what it reports, if
					// anything, is the context's code too (F13)
					closeResp := codeName(s.CloseResponse())
					_ = s.CloseRequest()
					got := "receive=" + codeName(err) + " send-after=" + send + " closeresponse=" + closeResp
					return got, codeName(err) == want && (send == want || strings.HasSuffix(send, "+eof")) && (closeResp == want || closeResp == "ok")
				case <-time.After(4 * time.Second):
					_ = s.CloseRequest() // lets the transport and the blocked Receive go
					return "Receive still blocked 4s after the context ended", false
				}
			}})
		}
		// K8: the deadline is installed by a client interceptor (a default-timeout interceptor), not
		// by the caller: streaming calls must honour the context the interceptor chain hands down
		for _, kind := range []string{"server", "bidi"} {
			kind := kind
			scs = append(scs, scenario{"cancel-interceptor-deadline", fmt.Sprintf("deadline installed by a client interceptor, %s %s h2=true", kind, proto), func() (string, bool) {
				release := make(chan struct{})
				h := connect.NewBidiStreamHandler("/s/m", func(ctx context.Context, s *connect.BidiStream[[]byte, []byte]) error {
					_ = s.Send(&[]byte{1})
					select {
					case <-release:
					case <-time.After(10 * time.Second):
					}
					return nil
				}, connect.WithCodec(rawCodec{"raw"}))
				var hh http.Handler = h
				if kind == "server" {
					hh = connect.NewServerStreamHandler("/s/m", func(ctx context.Context, r *connect.Request[[]byte], s *connect.ServerStream[[]byte]) error {
						_ = s.Send(&[]byte{1})
						select {
						case <-release:
						case <-time.After(10 * time.Second):
						}
						return nil
					}, connect.WithCodec(rawCodec{"raw"}))
				}
				srv := startServer(hh, true)
				defer srv.Close()
				defer close(release)
				cl := connect.NewClient[[]byte, []byte](srv.Client(), srv.URL+"/s/m", append(protoOpts(proto), connect.WithInterceptors(deadlineIcpt{200 * time.Millisecond}))...)
				done := make(chan string, 1)
				go func() {
					if kind == "server" {
						s, err := cl.CallServerStream(context.Background(), connect.NewRequest(&[]byte{}))
						if err != nil {
							done <- "call: " + codeName(err)
							return
						}
						for s.Receive() {
						}
						e := codeName(s.Err())
						_ = s.Close()
						done <- e
						return
					}
					s := cl.CallBidiStream(context.Background())
					_ = s.Send(&[]byte{1})
					_ = s.CloseRequest()
					var err error
					for err == nil {
						_, err = s.Receive()
					}
					_ = s.CloseResponse()
					done <- codeName(err)
				}()
				select {
				case got := <-done:
					return got, got == "deadline_exceeded"
				case <-time.After(4 * time.Second):
					return "the call is still running 4s after a 200ms deadline", false
				}
			}})
		}
		// K9: the deadline a peer sent passes while its request is still being uploaded: the unary
		// handler must not run user code with a finished context and answer as if all were well
		scs = append(scs, scenario{"cancel-deadline-during-upload", "deadline passes while the unary request body is still arriving, " + proto, func() (string, bool) {
			runs := int32(0)
			h := connect.NewUnaryHandler("/s/m", func(ctx context.Context, r *connect.Request[[]byte]) (*connect.Response[[]byte], error) {
				atomic.AddInt32(&runs, 1)
				return connect.NewResponse(&[]byte{1}), nil
			}, connect.WithCodec(rawCodec{"raw"}))
			body := []byte{5}
			if proto != "connect" {
				body = frame(0, []byte{5})
			}
			req := httptest.NewRequest(http.MethodPost, "/s/m", &slowReader{data: body, delay: 250 * time.Millisecond})
			req.ProtoMajor, req.ProtoMinor, req.Proto = 2, 0, "HTTP/2.0"
			req.Header.Set("Content-Type", ctFor(proto, "unary", "raw"))
			if proto == "connect" {
				req.Header.Set("Connect-Timeout-Ms", "40")
			} else {
				req.Header.Set("Grpc-Timeout", "40m")
			}
			rec := httptest.NewRecorder()
			h.ServeHTTP(rec, req)
			code, _ := responseErrorCode(proto, "unary", rec)
			got := fmt.Sprintf("user code ran %d times, response code %d", atomic.LoadInt32(&runs), code)
			return got, atomic.LoadInt32(&runs) == 0 && code == 4
		}})
		// K10: a peer (any implementation) sends a call whose time is already up - a zero timeout.
		// The handler's context is finished on arrival: unary user code is not run, a streaming
		// handler waiting on its context is released at once, the peer is told deadline_exceeded.
		for _, kind := range []string{"unary", "server"} {
			kind := kind
			scs = append(scs, scenario{"cancel-expired-on-arrival", fmt.Sprintf("zero timeout header on a %s call, %s", kind, proto), func() (string, bool) {
				runs := int32(0)
				released := make(chan string, 1)
				var h http.Handler
				if kind == "unary" {
					h = connect.NewUnaryHandler("/s/m", func(ctx context.Context, r *connect.Request[[]byte]) (*connect.Response[[]byte], error) {
						atomic.AddInt32(&runs, 1)
						return connect.NewResponse(&[]byte{1}), nil
					}, connect.WithCodec(rawCodec{"raw"}))
				} else {
					h = connect.NewServerStreamHandler("/s/m", func(ctx context.Context, r *connect.Request[[]byte], s *connect.ServerStream[[]byte]) error {
						select {
						case <-ctx.Done():
							released <- fmt.Sprint(ctx.Err())
							return ctx.Err()
						case <-time.After(2 * time.Second):
							released <- "not released within 2s"
							return nil
						}
					}, connect.WithCodec(rawCodec{"raw"}))
				}
				body := []byte{5}
				if proto != "connect" || kind != "unary" {
					body = frame(0, []byte{5})
				}
				req := httptest.NewRequest(http.MethodPost, "/s/m", bytes.NewReader(body))
				req.ProtoMajor, req.ProtoMinor, req.Proto = 2, 0, "HTTP/2.0"
				req.Header.Set("Content-Type", ctFor(proto, kind, "raw"))
				if proto == "connect" {
					req.Header.Set("Connect-Timeout-Ms", "0")
				} else {
					req.Header.Set("Grpc-Timeout", "0m")
				}
				rec := httptest.NewRecorder()
				h.ServeHTTP(rec, req)
				code, _ := responseErrorCode(proto, kind, rec)
				if kind == "unary" {
					got := fmt.Sprintf("user code ran %d times, response code %d", atomic.LoadInt32(&runs), code)
					return got, atomic.LoadInt32(&runs) == 0 && code == 4
				}
				rel := "handler not run"
				select {
				case rel = <-released:
				default:
				}
				got := fmt.Sprintf("handler context: %s, response code %d", rel, code)
				return got, (rel == "context deadline exceeded" || rel == "handler not run") && code == 4
			}})
		}
		// K11: see cwriteOp
		for _, stored := range []string{"8", "eof"} {
			for _, ending := range []string{"cancel", "deadline"} {
				cwriteOp(c, fmt.Sprintf("cwrite proto=%s stored=%s ctx=%s", proto, stored, ending))
			}
		}
		for _, ending := range []string{"cancel", "deadline"} {
			cwriteOp(c, fmt.Sprintf("cwrite proto=%s stored=14 via=transport ctx=%s", proto, ending))
		}
		// K12: a handler whose own context ended (server-side cancel or timeout; the client's
		// context is alive) returns that context's error: the client sees the same
		// classification - also a client with a small read limit, also in the unary Connect
		// form where the error travels as an HTTP status and a JSON body
		for _, kind := range []string{"unary", "server"} {
			for _, which := range []string{"canceled", "deadline_exceeded"} {
				for _, limit := range []int{0, 32} {
					if limit > 0 && kind != "unary" {
						continue // in a stream the terminator is an envelope and subject to the limit like any other
					}
					kind, which, limit := kind, which, limit
					scs = append(scs, scenario{"cancel-handler-classification", fmt.Sprintf("handler returns its context's error (%s), %s %s, client read limit %d", which, kind, proto, limit), func() (string, bool) {
						ret := context.Canceled
						if which == "deadline_exceeded" {
							ret = context.DeadlineExceeded
						}
						var h http.Handler
						if kind == "unary" {
							h = connect.NewUnaryHandler("/s/m", func(ctx context.Context, r *connect.Request[[]byte]) (*connect.Response[[]byte], error) {
								return nil, ret
							}, connect.WithCodec(rawCodec{"raw"}))
						} else {
							h = connect.NewServerStreamHandler("/s/m", func(ctx context.Context, r *connect.Request[[]byte], s *connect.ServerStream[[]byte]) error {
								return ret
							}, connect.WithCodec(rawCodec{"raw"}))
						}
						srv := startServer(h, true)
						defer srv.Close()
						cl := connect.NewClient[[]byte, []byte](srv.Client(), srv.URL+"/s/m", append(protoOpts(proto), connect.WithCodec(rawCodec{"raw"}), connect.WithReadMaxBytes(limit))...)
						var err error
						if kind == "unary" {
							_, err = cl.CallUnary(context.Background(), connect.NewRequest(&[]byte{1}))
						} else {
							st, cerr := cl.CallServerStream(context.Background(), connect.NewRequest(&[]byte{1}))
							if cerr != nil {
								return "call: " + cerr.Error(), false
							}
							for st.Receive() {
							}
							err = st.Err()
							_ = st.Close()
						}
						return codeName(err), codeName(err) == which
					}})
				}
			}
		}
		// K13: the deadline that reaches the handler is this call's, also when the Request value
		// carried a longer one from an earlier call and the handler cannot see the client go away
		// (an intermediary keeps the upstream request alive): the handler's context ends when the
		// call's deadline passes
		scs = append(scs, scenario{"cancel-handler-ctx", "Request value used with a 1h deadline, then with 300ms, through a transport that hides the client's disconnect, unary " + proto, func() (string, bool) {
			ended := make(chan time.Duration, 4)
			h := connect.NewUnaryHandler("/s/m", func(ctx context.Context, r *connect.Request[[]byte]) (*connect.Response[[]byte], error) {
				if r.Header().Get("X-Wait") == "" {
					return connect.NewResponse(&[]byte{1}), nil
				}
				t0 := time.Now()
				select {
				case <-ctx.Done():
					ended <- time.Since(t0)
				case <-time.After(3 * time.Second):
					ended <- -1
				}
				return nil, ctx.Err()
			}, connect.WithCodec(rawCodec{"raw"}))
			srv := startServer(h, true)
			defer srv.Close()
			cl := connect.NewClient[[]byte, []byte](detachedClient{srv.Client()}, srv.URL+"/s/m", append(protoOpts(proto), connect.WithCodec(rawCodec{"raw"}))...)
			req := connect.NewRequest(&[]byte{1})
			ctx1, cancel1 := context.WithTimeout(context.Background(), time.Hour)
			_, _ = cl.CallUnary(ctx1, req)
			cancel1()
			req.Header().Set("X-Wait", "1")
			ctx2, cancel2 := context.WithTimeout(context.Background(), 300*time.Millisecond)
			defer cancel2()
			_, err := cl.CallUnary(ctx2, req)
			select {
			case d := <-ended:
				if d < 0 {
					return "the handler's context was still alive 3s after a 300ms deadline", false
				}
				return fmt.Sprintf("handler context ended after %v, client: %s", d.Round(10*time.Millisecond), codeName(err)), codeName(err) == "deadline_exceeded"
			case <-time.After(5 * time.Second):
				return "the handler never reported", false
			}
		}})
		// K14: contexts that carry a *cause* (context.WithCancelCause, WithTimeoutCause): cancelled
		// is cancelled and expired is expired, whatever context.Cause would say
		for _, which := range []string{"cancel-cause-before-unary", "timeout-cause-before-unary", "cancel-cause-between-receives"} {
			which := which
			scs = append(scs, scenario{"cancel-before-call", "a context ended with a custom cause: " + which + ", " + proto, func() (string, bool) {
				h2 := true
				srv := startServer(connect.NewServerStreamHandler("/s/m", func(ctx context.Context, r *connect.Request[[]byte], s *connect.ServerStream[[]byte]) error {
					_ = s.Send(&[]byte{1})
					<-ctx.Done()
					return ctx.Err()
				}, connect.WithCodec(rawCodec{"raw"})), h2)
				defer srv.Close()
				cl := connect.NewClient[[]byte, []byte](srv.Client(), srv.URL+"/s/m", append(protoOpts(proto), connect.WithCodec(rawCodec{"raw"}))...)
				cause := errors.New("shutting down for maintenance")
				switch which {
				case "cancel-cause-before-unary":
					ctx, cancel := context.WithCancelCause(context.Background())
					cancel(cause)
					_, err := cl.CallUnary(ctx, connect.NewRequest(&[]byte{1}))
					return codeName(err), codeName(err) == "canceled"
				case "timeout-cause-before-unary":
					ctx, cancel := context.WithTimeoutCause(context.Background(), time.Millisecond, cause)
					defer cancel()
					<-ctx.Done()
					_, err := cl.CallUnary(ctx, connect.NewRequest(&[]byte{1}))
					return codeName(err), codeName(err) == "deadline_exceeded"
				}
				ctx, cancel := context.WithCancelCause(context.Background())
				defer cancel(nil)
				st, err := cl.CallServerStream(ctx, connect.NewRequest(&[]byte{1}))
				if err != nil {
					return "call: " + codeName(err), false
				}
				if !st.Receive() {
					return "first Receive failed: " + codeName(st.Err()), false
				}
				cancel(cause)
				more := st.Receive()
				got := fmt.Sprintf("more=%v err=%s", more, codeName(st.Err()))
				_ = st.Close()
				return got, got == "more=false err=canceled"
			}})
		}
		// K17: the same contexts ending DURING a call, over HTTP/1.1 as well as HTTP/2 (net/http's
		// HTTP/1.1 transport reports context.Cause(ctx) - the custom cause - as the error of the
		// interrupted round trip or body read)
		for _, h2 := range []bool{false, true} {
			for _, which := range []string{"cancel-cause-unary", "timeout-cause-unary", "cancel-cause-stream"} {
				h2, which := h2, which
				scs = append(scs, scenario{"cancel-deadline-waiting", fmt.Sprintf("a context with a custom cause ends during the call: %s, %s h2=%v", which, proto, h2), func() (string, bool) {
					mux := http.NewServeMux()
					mux.Handle("/s/u", connect.NewUnaryHandler("/s/u", func(ctx context.Context, r *connect.Request[[]byte]) (*connect.Response[[]byte], error) {
						select {
						case <-ctx.Done():
							return nil, ctx.Err()
						case <-time.After(3 * time.Second):
							return connect.NewResponse(&[]byte{1}), nil
						}
					}, connect.WithCodec(rawCodec{"raw"})))
					mux.Handle("/s/s", connect.NewServerStreamHandler("/s/s", func(ctx context.Context, r *connect.Request[[]byte], s *connect.ServerStream[[]byte]) error {
						_ = s.Send(&[]byte{1})
						select {
						case <-ctx.Done():
							return ctx.Err()
						case <-time.After(3 * time.Second):
							return nil
						}
					}, connect.WithCodec(rawCodec{"raw"})))
					srv := startServer(mux, h2)
					defer srv.Close()
					cause := errors.New("shutting down for maintenance")
					opts := append(protoOpts(proto), connect.WithCodec(rawCodec{"raw"}))
					switch which {
					case "cancel-cause-unary":
						cl := connect.NewClient[[]byte, []byte](srv.Client(), srv.URL+"/s/u", opts...)
						ctx, cancel := context.WithCancelCause(context.Background())
						go func() { time.Sleep(150 * time.Millisecond); cancel(cause) }()
						_, err := cl.CallUnary(ctx, connect.NewRequest(&[]byte{1}))
						return codeName(err), codeName(err) == "canceled"
					case "timeout-cause-unary":
						cl := connect.NewClient[[]byte, []byte](srv.Client(), srv.URL+"/s/u", opts...)
						ctx, cancel := context.WithTimeoutCause(context.Background(), 150*time.Millisecond, cause)
						defer cancel()
						_, err := cl.CallUnary(ctx, connect.NewRequest(&[]byte{1}))
						return codeName(err), codeName(err) == "deadline_exceeded"
					}
					cl := connect.NewClient[[]byte, []byte](srv.Client(), srv.URL+"/s/s", opts...)
					ctx, cancel := context.WithCancelCause(context.Background())
					defer cancel(nil)
					st, err := cl.CallServerStream(ctx, connect.NewRequest(&[]byte{1}))
					if err != nil {
						return "call: " + codeName(err), false
					}
					if !st.Receive() {
						return "first Receive failed: " + codeName(st.Err()), false
					}
					go func() { time.Sleep(150 * time.Millisecond); cancel(cause) }()
					more := st.Receive()
					got := fmt.Sprintf("more=%v err=%s", more, codeName(st.Err()))
					full := fmt.Sprintf("%v", st.Err())
					_ = st.Close()
					if got != "more=false err=canceled" {
						return got + " [" + full + "]", false
					}
					return got, true
				}})
			}
		}
		// K18: a unary (or client-streaming) call whose response MESSAGE has arrived but whose
		// end (trailer frame / HTTP trailers) has not: the context ends, the pending body read
		// fails - the call fails with the context's code (it has not succeeded, and "unknown" is
		// not what happened)
		if proto != "connect" {
			for _, kind := range []string{"unary", "client"} {
				for _, ending := range []string{"cancel", "deadline"} {
					for _, bodyErr := range []string{"ctx", "transport"} {
						kind, ending, bodyErr := kind, ending, bodyErr
						scs = append(scs, scenario{"cancel-blocked-receive", fmt.Sprintf("%s call: the response message is in, the end of the response is not; %s; the pending body read then fails (%s error), %s", kind, ending, bodyErr, proto), func() (string, bool) {
							var ctx context.Context
							var cancel context.CancelFunc
							want := "canceled"
							if ending == "cancel" {
								ctx, cancel = context.WithCancel(context.Background())
							} else {
								ctx, cancel = context.WithTimeout(context.Background(), 150*time.Millisecond)
								want = "deadline_exceeded"
							}
							defer cancel()
							wb := &watchedBody{data: frame(0, []byte{1, 2}), blocked: make(chan struct{}), release: make(chan struct{})}
							wb.err = errTransport
							hc := &watchClient{bodyClient: bodyClient{status: 200, header: http.Header{"Content-Type": {ctFor(proto, kind, "raw")}}, body: wb}, pipeClosed: make(chan struct{})}
							cl := connect.NewClient[[]byte, []byte](hc, "http://h/s/m", append(protoOpts(proto), connect.WithCodec(rawCodec{"raw"}))...)
							done := make(chan error, 1)
							go func() {
								if kind == "unary" {
									_, err := cl.CallUnary(ctx, connect.NewRequest(&[]byte{1}))
									done <- err
									return
								}
								st := cl.CallClientStream(ctx)
								_ = st.Send(&[]byte{1})
								_, err := st.CloseAndReceive()
								done <- err
							}()
							select {
							case <-wb.blocked:
							case <-time.After(3 * time.Second):
								return "the call never got to read the end of the response", false
							}
							if ending == "cancel" {
								cancel()
							}
							<-ctx.Done()
							if bodyErr == "ctx" {
								wb.err = ctx.Err()
							}
							time.Sleep(20 * time.Millisecond)
							close(wb.release)
							select {
							case err := <-done:
								return codeName(err), codeName(err) == want
							case <-time.After(3 * time.Second):
								return "the call did not return", false
							}
						}})
					}
				}
			}
		}
		// K15: a context that was *cancelled* before its (short) deadline and is used after that
		// instant is a cancelled context: every operation reports canceled - Send and the
		// response side alike
		for _, kind := range []string{"client", "bidi"} {
			kind := kind
			scs = append(scs, scenario{"cancel-before-call", "context with a 20ms deadline cancelled at once, used 60ms later, " + kind + " " + proto, func() (string, bool) {
				srv := startServer(connect.NewBidiStreamHandler("/s/m", func(ctx context.Context, s *connect.BidiStream[[]byte, []byte]) error {
					return nil
				}, connect.WithCodec(rawCodec{"raw"})), true)
				defer srv.Close()
				cl := connect.NewClient[[]byte, []byte](srv.Client(), srv.URL+"/s/m", append(protoOpts(proto), connect.WithCodec(rawCodec{"raw"}))...)
				ctx, cancel := context.WithTimeout(context.Background(), 20*time.Millisecond)
				cancel()
				time.Sleep(60 * time.Millisecond)
				var sendErr, recvErr error
				if kind == "client" {
					st := cl.CallClientStream(ctx)
					sendErr = st.Send(&[]byte{1})
					_, recvErr = st.CloseAndReceive()
				} else {
					st := cl.CallBidiStream(ctx)
					sendErr = st.Send(&[]byte{1})
					_ = st.CloseRequest()
					_, recvErr = st.Receive()
					_ = st.CloseResponse()
				}
				got := fmt.Sprintf("send=%s receive=%s", codeName(sendErr), codeName(recvErr))
				return got, got == "send=canceled receive=canceled"
			}})
		}
		// K16: the context ends while a server-streaming call is still uploading its (large)
		// request to a peer that does not read: whether the call itself or the stream's
		// Receive/Err reports it, the code is the context's
		for _, ending := range []string{"cancel", "deadline"} {
			ending := ending
			scs = append(scs, scenario{"cancel-blocked-receive", fmt.Sprintf("server-streaming call: %s while the 16 MiB request is held up by a peer that does not read, %s", ending, proto), func() (string, bool) {
				release := make(chan struct{})
				srv := startServer(http.HandlerFunc(func(w http.ResponseWriter, r *http.Request) {
					<-release // never reads the body
				}), true)
				defer srv.Close()
				defer close(release)
				cl := connect.NewClient[[]byte, []byte](srv.Client(), srv.URL+"/s/m", append(protoOpts(proto), connect.WithCodec(rawCodec{"raw"}))...)
				var ctx context.Context
				var cancel context.CancelFunc
				want := "canceled"
				if ending == "cancel" {
					ctx, cancel = context.WithCancel(context.Background())
					go func() { time.Sleep(200 * time.Millisecond); cancel() }()
				} else {
					ctx, cancel = context.WithTimeout(context.Background(), 200*time.Millisecond)
					want = "deadline_exceeded"
				}
				defer cancel()
				big := make([]byte, 16<<20)
				x := uint64(88172645463325252)
				for i := range big {
					x ^= x << 13
					x ^= x >> 7
					x ^= x << 17
					big[i] = byte(x)
				}
				done := make(chan string, 1)
				go func() {
					st, err := cl.CallServerStream(ctx, connect.NewRequest(&big))
					if err != nil {
						done <- "call:" + codeName(err)
						return
					}
					for st.Receive() {
					}
					e := codeName(st.Err())
					_ = st.Close()
					done <- "stream:" + e
				}()
				select {
				case got := <-done:
					return got, strings.TrimSuffix(strings.SplitN(got, ":", 2)[1], "+eof") == want && !strings.HasSuffix(got, "+eof")
				case <-time.After(5 * time.Second):
					return "the call is still running 5s after the context ended", false
				}
			}})
		}
		// K6: the context ends between the prefix write and the payload write of one Send
		scs = append(scs, scenario{"cancel-mid-send", "context cancelled between the two writes of one Send, " + proto, func() (string, bool) {
			return cancelMidSend(proto)
		}})
	}
	runScenarios(c, scs)
}

var yieldMu sync.Mutex

// cancelMidSend uses the verif yield points: the second "write.ctxcheck" of the second Send is
// the payload write of that Send.
func cancelMidSend(proto string) (string, bool) {
	yieldMu.Lock()
	defer yieldMu.Unlock()
	h := connect.NewBidiStreamHandler("/s/m", func(ctx context.Context, s *connect.BidiStream[[]byte, []byte]) error {
		for {
			if _, err := s.Receive(); err != nil {
				return nil
			}
		}
	}, connect.WithCodec(rawCodec{"raw"}))
	srv := startServer(h, true)
	defer srv.Close()
	cl := connect.NewClient[[]byte, []byte](srv.Client(), srv.URL+"/s/m", protoOpts(proto)...)
	ctx, cancel := context.WithCancel(context.Background())
	defer cancel()
	s := cl.CallBidiStream(ctx)
	if err := s.Send(&[]byte{1, 2, 3}); err != nil {
		return "first send: " + err.Error(), false
	}
	var writes int32
	connect.VerifSetYield(func(point string) {
		if point == "write.ctxcheck" {
			if atomic.AddInt32(&writes, 1) == 2 {
				cancel()
			}
		}
	})
	err := s.Send(&[]byte{4, 5, 6})
	connect.VerifSetYield(nil)
	_, rerr := s.Receive()
	got := fmt.Sprintf("send=%s receive=%s (writes seen=%d)", codeName(err), codeName(rerr), atomic.LoadInt32(&writes))
	if atomic.LoadInt32(&writes) < 2 {
		return got + " yield points not reached", true // hooks removed by a refactoring: nothing to decide here
	}
	ok := (codeName(err) == "canceled" || strings.HasSuffix(codeName(err), "+eof")) && codeName(rerr) == "canceled"
	return got, ok
}

func callClientCtx(ctx context.Context, proto, kind string, hc connect.HTTPClient, url string) error {
	cl := connect.NewClient[[]byte, []byte](hc, url, protoOpts(proto)...)
	switch kind {
	case "unary":
		_, err := cl.CallUnary(ctx, connect.NewRequest(&[]byte{}))
		return err
	case "client":
		s := cl.CallClientStream(ctx)
		if err := s.Send(&[]byte{1}); err != nil && !errors.Is(err, io.EOF) {
			return err
		}
		_, err := s.CloseAndReceive()
		return err
	default:
		s, err := cl.CallServerStream(ctx, connect.NewRequest(&[]byte{}))
		if err != nil {
			return err
		}
		for s.Receive() {
		}
		err = s.Err()
		_ = s.Close()
		return err
	}
}

// --- C14 scenarios --------------------------------------------------------------------------

type closeCounter struct {
	io.ReadCloser
	n *int32
}

func (c closeCounter) Close() error { atomic.AddInt32(c.n, 1); return c.ReadCloser.Close() }

type countingClient struct {
	inner  connect.HTTPClient
	bodies int32
	closes int32
}

func (c *countingClient) Do(req *http.Request) (*http.Response, error) {
	res, err := c.inner.Do(req)
	if err == nil && res.Body != nil {
		atomic.AddInt32(&c.bodies, 1)
		res.Body = closeCounter{res.Body, &c.closes}
	}
	return res, err
}

func libraryGoroutines() int {
	buf := make([]byte, 1<<20)
	n := runtime.Stack(buf, true)
	count := 0
	for _, g := range strings.Split(string(buf[:n]), "\n\n") {
		if strings.Contains(g, "github.com/bufbuild/connect-go.") && !strings.Contains(g, "verif/harness") && !strings.Contains(g, "main.") {
			count++
		}
	}
	return count
}

func streamLife(c *Ctx) {
	if strings.HasPrefix(replayOp, "rseq ") {
		rseqOp(c, replayOp)
		return
	}
	if strings.HasPrefix(replayOp, "sseq ") {
		sseqOp(c, replayOp)
		return
	}
	var scs []scenario
	for _, proto := range []string{"connect", "grpc", "grpcweb"} {
		proto := proto
		// L1: a large Send interrupted by the handler finishing returns an error wrapping io.EOF,
		// and Receive then reports the handler's outcome
		scs = append(scs, scenario{"life-send-after-finish", "8 MiB Send while the handler returns without reading, " + proto, func() (string, bool) {
			h := connect.NewBidiStreamHandler("/s/m", func(ctx context.Context, s *connect.BidiStream[[]byte, []byte]) error {
				return connect.NewError(connect.CodeResourceExhausted, errors.New("no more"))
			}, connect.WithCodec(rawCodec{"raw"}))
			srv := startServer(h, true)
			defer srv.Close()
			cl := connect.NewClient[[]byte, []byte](srv.Client(), srv.URL+"/s/m", protoOpts(proto)...)
			s := cl.CallBidiStream(context.Background())
			big := bytes.Repeat([]byte{9}, 8<<20)
			var sendErr error
			for i := 0; i < 8 && sendErr == nil; i++ {
				sendErr = s.Send(&big)
			}
			_, rerr := s.Receive()
			_ = s.CloseRequest()
			_ = s.CloseResponse()
			got := fmt.Sprintf("send=%s receive=%s", codeName(sendErr), codeName(rerr))
			return got, sendErr != nil && errors.Is(sendErr, io.EOF) && codeName(rerr) == "resource_exhausted"
		}})
		// L5 (F31): a bidi call against an HTTP/1.1 server. The handler refuses it (505) without
		// reading the request; the program Send, Receive, CloseRequest, CloseResponse must get
		// past Receive on its own - the answer must not wait for a request body the client will
		// only finish after it has seen the answer.
		scs = append(scs, scenario{"life-h1-bidi", "Send, Receive, CloseRequest, CloseResponse on a bidi call against an HTTP/1.1 server, " + proto, func() (string, bool) {
			h := connect.NewBidiStreamHandler("/s/m", func(ctx context.Context, s *connect.BidiStream[[]byte, []byte]) error {
				return nil
			}, connect.WithCodec(rawCodec{"raw"}))
			srv := startServer(h, false)
			defer srv.Close()
			cl := connect.NewClient[[]byte, []byte](srv.Client(), srv.URL+"/s/m", protoOpts(proto)...)
			s := cl.CallBidiStream(context.Background())
			_ = s.Send(&[]byte{1})
			done := make(chan error, 1)
			go func() { _, err := s.Receive(); done <- err }()
			var rerr error
			blocked := false
			select {
			case rerr = <-done:
			case <-time.After(1500 * time.Millisecond):
				blocked = true
				_ = s.CloseRequest()
				rerr = <-done
			}
			_ = s.CloseRequest()
			_ = s.CloseResponse()
			if blocked {
				return "Receive still blocked after 1.5s; returned after CloseRequest: " + codeName(rerr), false
			}
			return "receive=" + codeName(rerr), rerr != nil
		}})
		// L6 (F32): draining the response fails inside CloseResponse (the transport reports an
		// error): the response body must be closed all the same.
		scs = append(scs, scenario{"life-body-not-closed", "CloseResponse whose drain of the response body fails, " + proto, func() (string, bool) {
			fb := &closeTrackingBody{failingBody: failingBody{data: append(frame(0, []byte{1}), 0, 0), err: errors.New("read tcp: connection reset by peer")}}
			hc := &bodyClient{status: 200, header: http.Header{"Content-Type": {ctFor(proto, "bidi", "raw")}}, body: fb}
			cl := connect.NewClient[[]byte, []byte](hc, "http://h/s/m", protoOpts(proto)...)
			s := cl.CallBidiStream(context.Background())
			_ = s.Send(&[]byte{1})
			_ = s.CloseRequest()
			if _, err := s.Receive(); err != nil {
				return "first receive: " + codeName(err), false
			}
			cerr := s.CloseResponse()
			return fmt.Sprintf("CloseResponse=%s body closed %d time(s)", codeName(cerr), fb.closed), fb.closed >= 1
		}})
		// L7 (round 9, C14-mk): the handler's own outcome is an error coded canceled or
		// deadline_exceeded (a downstream timeout, say) while the client's context is alive: closing
		// the response is what it always is - nil, and the HTTP response body closed.
		for _, kind := range []string{"server", "bidi"} {
			for _, code := range []connect.Code{connect.CodeDeadlineExceeded, connect.CodeCanceled} {
				kind, code := kind, code
				scs = append(scs, scenario{"life-body-not-closed", fmt.Sprintf("handler ends a %s call with %s (client context alive), then CloseResponse, %s", kind, code, proto), func() (string, bool) {
					fail := func() error { return connect.NewError(code, errors.New("downstream gave up")) }
					var h http.Handler
					if kind == "server" {
						h = connect.NewServerStreamHandler("/s/m", func(ctx context.Context, r *connect.Request[[]byte], s *connect.ServerStream[[]byte]) error {
							_ = s.Send(&[]byte{1})
							return fail()
						}, connect.WithCodec(rawCodec{"raw"}))
					} else {
						h = connect.NewBidiStreamHandler("/s/m", func(ctx context.Context, s *connect.BidiStream[[]byte, []byte]) error {
							_, _ = s.Receive()
							_ = s.Send(&[]byte{1})
							return fail()
						}, connect.WithCodec(rawCodec{"raw"}))
					}
					srv := startServer(h, true)
					defer srv.Close()
					cc := &countingClient{inner: srv.Client()}
					cl := connect.NewClient[[]byte, []byte](cc, srv.URL+"/s/m", protoOpts(proto)...)
					var closeErr, outcome error
					if kind == "server" {
						st, err := cl.CallServerStream(context.Background(), connect.NewRequest(&[]byte{1}))
						if err != nil {
							return "call: " + err.Error(), false
						}
						for st.Receive() {
						}
						outcome = st.Err()
						closeErr = st.Close()
					} else {
						st := cl.CallBidiStream(context.Background())
						_ = st.Send(&[]byte{1})
						_, _ = st.Receive()
						_, outcome = st.Receive()
						_ = st.CloseRequest()
						closeErr = st.CloseResponse()
					}
					closes := atomic.LoadInt32(&cc.closes)
					// (what CloseResponse returns when the transport has torn the stream down under the
					// drain is the call's outcome again, or nil: either way the body must have been closed)
					return fmt.Sprintf("outcome=%s close=%s body closed %d time(s)", codeName(outcome), codeName(closeErr), closes), codeName(outcome) == code.String() && closes >= 1
				}})
			}
		}
		// L8 (round 9, C14-ml): one Send in the middle of a healthy stream fails on the client
		// (the codec refuses that message; nothing goes on the wire). The call goes on: later Sends
		// succeed, the handler sees the other messages and then the end of the request, and
		// Receive reports the handler's outcome.
		for _, kind := range []string{"client", "bidi"} {
			kind := kind
			scs = append(scs, scenario{"life-send-refused-locally", "Send ok, Send refused by the codec, Send ok, CloseRequest, " + kind + " " + proto, func() (string, bool) {
				var seen [][]byte
				var end error
				var mu sync.Mutex
				note := func(m []byte) { mu.Lock(); seen = append(seen, append([]byte{}, m...)); mu.Unlock() }
				var h http.Handler
				if kind == "client" {
					h = connect.NewClientStreamHandler("/s/m", func(ctx context.Context, s *connect.ClientStream[[]byte]) (*connect.Response[[]byte], error) {
						for s.Receive() {
							note(*s.Msg())
						}
						end = s.Err()
						n := byte(len(seen))
						return connect.NewResponse(&[]byte{n}), nil
					}, connect.WithCodec(rawCodec{"raw"}))
				} else {
					h = connect.NewBidiStreamHandler("/s/m", func(ctx context.Context, s *connect.BidiStream[[]byte, []byte]) error {
						for {
							m, err := s.Receive()
							if err != nil {
								if !errors.Is(err, io.EOF) {
									end = err
								}
								break
							}
							note(*m)
						}
						n := byte(len(seen))
						return s.Send(&[]byte{n})
					}, connect.WithCodec(rawCodec{"raw"}))
				}
				srv := startServer(h, true)
				defer srv.Close()
				cl := connect.NewClient[[]byte, []byte](srv.Client(), srv.URL+"/s/m", append(protoOpts(proto), connect.WithCodec(pickyCodec{rawCodec{"raw"}}))...)
				var e1, e2, e3, rerr error
				var res []byte
				if kind == "client" {
					st := cl.CallClientStream(context.Background())
					e1, e2, e3 = st.Send(&[]byte{1}), st.Send(&[]byte{0xBD}), st.Send(&[]byte{3})
					r, err := st.CloseAndReceive()
					rerr = err
					if err == nil {
						res = *r.Msg
					}
				} else {
					st := cl.CallBidiStream(context.Background())
					e1, e2, e3 = st.Send(&[]byte{1}), st.Send(&[]byte{0xBD}), st.Send(&[]byte{3})
					_ = st.CloseRequest()
					m, err := st.Receive()
					rerr = err
					if err == nil {
						res = *m
					}
					_ = st.CloseResponse()
				}
				mu.Lock()
				defer mu.Unlock()
				got := fmt.Sprintf("sends=%s,%s,%s handler saw %x end=%s result=%x err=%s", codeName(e1), codeName(e2), codeName(e3), seen, codeName(end), res, codeName(rerr))
				ok := e1 == nil && e2 != nil && e3 == nil && len(seen) == 2 && end == nil && rerr == nil && len(res) == 1 && res[0] == 2
				return got, ok
			}})
		}
		// L9 (F36): a client built with a URL that url.ParseRequestURI lets through and
		// http.NewRequest refuses: every call fails with a coded error - no panic, and no
		// operation waits for a response that nothing will ever produce.
		scs = append(scs, scenario{"life-bad-url", "calls on a client whose URL http.NewRequest refuses (http://host/s/m?x#%zz), " + proto, func() (string, bool) {
			got := safely(func() string {
				cl := connect.NewClient[[]byte, []byte](&inprocClient{h: http.NotFoundHandler()}, "http://host/s/m?x#%zz", protoOpts(proto)...)
				_, uerr := cl.CallUnary(context.Background(), connect.NewRequest(&[]byte{1}))
				st := cl.CallBidiStream(context.Background())
				done := make(chan error, 1)
				go func() {
					defer func() {
						if r := recover(); r != nil {
							done <- fmt.Errorf("PANIC %v", r)
						}
					}()
					_, err := st.Receive()
					done <- err
				}()
				var rerr error
				select {
				case rerr = <-done:
				case <-time.After(2 * time.Second):
					return "Receive on a bidi stream of that client still blocked after 2 s (unary: " + codeName(uerr) + ")"
				}
				cerr := st.CloseResponse()
				return fmt.Sprintf("unary=%s receive=%s close=%s", codeName(uerr), codeName(rerr), codeName(cerr))
			})
			return got, strings.HasPrefix(got, "unary=unavailable receive=unavailable")
		}})
		// L10 (F37): CloseRequest fails (an interceptor's conn reports an error after closing the
		// inner one) inside CallServerStream: the caller gets no stream to close, so the library
		// has to release the response itself.
		scs = append(scs, scenario{"life-body-not-closed", "CallServerStream whose CloseRequest fails in an interceptor, " + proto, func() (string, bool) {
			// (a scripted transport: what a real one does with an abandoned response is its own
			// business - and not always the same)
			fb := &closeTrackingBody{failingBody: failingBody{data: append(frame(0, []byte{1}), 0, 0), err: errors.New("read tcp: connection reset by peer")}}
			hc := &bodyClient{status: 200, header: http.Header{"Content-Type": {ctFor(proto, "server", "raw")}}, body: fb}
			cl := connect.NewClient[[]byte, []byte](hc, "http://h/s/m", append(protoOpts(proto), connect.WithInterceptors(failingCloseIcpt{}))...)
			_, err := cl.CallServerStream(context.Background(), connect.NewRequest(&[]byte{1}))
			deadline := time.Now().Add(2 * time.Second)
			for fb.closedCount() == 0 && time.Now().Before(deadline) {
				time.Sleep(20 * time.Millisecond)
			}
			return fmt.Sprintf("call=%s response body closed %d time(s)", codeName(err), fb.closedCount()), err != nil && fb.closedCount() >= 1
		}})
		// L10b (round 11, C14-mo): the same for a client stream: CloseAndReceive whose CloseRequest
		// fails must release the response as well.
		scs = append(scs, scenario{"life-body-not-closed", "CallClientStream, Send, CloseAndReceive whose CloseRequest fails in an interceptor, " + proto, func() (string, bool) {
			fb := &closeTrackingBody{failingBody: failingBody{data: append(frame(0, []byte{1}), 0, 0), err: errors.New("read tcp: connection reset by peer")}}
			hc := &bodyClient{status: 200, header: http.Header{"Content-Type": {ctFor(proto, "client", "raw")}}, body: fb}
			cl := connect.NewClient[[]byte, []byte](hc, "http://h/s/m", append(protoOpts(proto), connect.WithInterceptors(failingCloseIcpt{}))...)
			st := cl.CallClientStream(context.Background())
			_ = st.Send(&[]byte{1})
			_, err := st.CloseAndReceive()
			deadline := time.Now().Add(2 * time.Second)
			for fb.closedCount() == 0 && time.Now().Before(deadline) {
				time.Sleep(20 * time.Millisecond)
			}
			return fmt.Sprintf("call=%s response body closed %d time(s)", codeName(err), fb.closedCount()), err != nil && fb.closedCount() >= 1
		}})
		// L12 (round 11, C14-mp): what a streaming handler has sent is on its way: a handler that
		// sends a message and then waits for the client (a watch) must not keep it in a buffer -
		// the client's Receive returns although the handler has not finished.
		scs = append(scs, scenario{"life-sent-message-held-back", "server-stream handler sends one message, then waits for the client to go away, " + proto, func() (string, bool) {
			release := make(chan struct{})
			h := connect.NewServerStreamHandler("/s/m", func(ctx context.Context, r *connect.Request[[]byte], s *connect.ServerStream[[]byte]) error {
				if err := s.Send(&[]byte{7}); err != nil {
					return err
				}
				select {
				case <-ctx.Done():
				case <-release:
				case <-time.After(5 * time.Second):
				}
				return nil
			}, connect.WithCodec(rawCodec{"raw"}))
			srv := startServer(h, true)
			defer srv.Close()
			defer close(release)
			cl := connect.NewClient[[]byte, []byte](srv.Client(), srv.URL+"/s/m", protoOpts(proto)...)
			ctx, cancel := context.WithCancel(context.Background())
			defer cancel()
			st, err := cl.CallServerStream(ctx, connect.NewRequest(&[]byte{1}))
			if err != nil {
				return "call: " + codeName(err), false
			}
			got := make(chan bool, 1)
			go func() { got <- st.Receive() }()
			select {
			case ok := <-got:
				cancel()
				_ = st.Close()
				return fmt.Sprintf("Receive returned %v", ok), ok
			case <-time.After(3 * time.Second):
				cancel()
				return "Receive still blocked after 3 s although the handler has sent its message", false
			}
		}})
		// L11 (round 10, C14-mm): a handler whose outcome is an error that wraps io.EOF - the
		// common `if _, err := stream.Receive(); err != nil { return err }` at the end of the
		// request - has failed; the client's Receive reports that outcome, not a clean end.
		scs = append(scs, scenario{"life-outcome-lost", "bidi handler returns the EOF-wrapping error its Receive gave it, " + proto, func() (string, bool) {
			h := connect.NewBidiStreamHandler("/s/m", func(ctx context.Context, s *connect.BidiStream[[]byte, []byte]) error {
				for {
					if _, err := s.Receive(); err != nil {
						return err
					}
				}
			}, connect.WithCodec(rawCodec{"raw"}))
			srv := startServer(h, true)
			defer srv.Close()
			cl := connect.NewClient[[]byte, []byte](srv.Client(), srv.URL+"/s/m", protoOpts(proto)...)
			s := cl.CallBidiStream(context.Background())
			_ = s.Send(&[]byte{1})
			_ = s.CloseRequest()
			_, rerr := s.Receive()
			_ = s.CloseResponse()
			// (the handler's error travels as code and text: what arrives does not wrap io.EOF, which
			// is how the client tells it from the clean end of the stream)
			return "receive=" + codeName(rerr), rerr != nil && connect.CodeOf(rerr) == connect.CodeUnknown && !errors.Is(rerr, io.EOF)
		}})
		// L1b: small Sends after the handler finished eventually fail with an EOF-wrapping error
		scs = append(scs, scenario{"life-send-after-finish", "small Sends after the handler finished, " + proto, func() (string, bool) {
			h := connect.NewBidiStreamHandler("/s/m", func(ctx context.Context, s *connect.BidiStream[[]byte, []byte]) error {
				return connect.NewError(connect.CodeAborted, errors.New("done"))
			}, connect.WithCodec(rawCodec{"raw"}))
			srv := startServer(h, true)
			defer srv.Close()
			cl := connect.NewClient[[]byte, []byte](srv.Client(), srv.URL+"/s/m", protoOpts(proto)...)
			s := cl.CallBidiStream(context.Background())
			_ = s.Send(&[]byte{1})
			_, rerr := s.Receive() // the handler's outcome
			var sendErr error
			for i := 0; i < 2000 && sendErr == nil; i++ {
				sendErr = s.Send(&[]byte{2})
			}
			_ = s.CloseRequest()
			_ = s.CloseResponse()
			got := fmt.Sprintf("receive=%s send=%s", codeName(rerr), codeName(sendErr))
			return got, codeName(rerr) == "aborted" && sendErr != nil && errors.Is(sendErr, io.EOF)
		}})
		// L1c: a server-streaming call whose request cannot be delivered because the other side
		// is already finished (the transport fails without reading it; the handler answers without
		// reading 8 MiB): the caller still learns the call's real outcome - from the call itself
		// or from the stream's Receive/Err - not a local "write: EOF"
		for _, route := range []string{"transport-fails", "handler-answers-early"} {
			route := route
			scs = append(scs, scenario{"life-send-after-finish", fmt.Sprintf("server-streaming call, %s before the request is read, %s", route, proto), func() (string, bool) {
				want := "unavailable"
				var hc connect.HTTPClient = noReadFailingDo{errors.New("dial tcp: connection refused")}
				url := "http://127.0.0.1:9/s/m"
				msg := []byte{1}
				if route == "handler-answers-early" {
					want = "resource_exhausted"
					srv := startServer(connect.NewServerStreamHandler("/s/m", func(ctx context.Context, r *connect.Request[[]byte], s *connect.ServerStream[[]byte]) error {
						return connect.NewError(connect.CodeResourceExhausted, errors.New("no more"))
					}, connect.WithCodec(rawCodec{"raw"}), connect.WithReadMaxBytes(1024)), true)
					defer srv.Close()
					hc, url = srv.Client(), srv.URL+"/s/m"
					msg = bytes.Repeat([]byte{9}, 8<<20)
					want = "invalid_argument" // the 8 MiB message exceeds the handler's read limit: its answer
				}
				cl := connect.NewClient[[]byte, []byte](hc, url, append(protoOpts(proto), connect.WithCodec(rawCodec{"raw"}))...)
				st, err := cl.CallServerStream(context.Background(), connect.NewRequest(&msg))
				got := ""
				if err != nil {
					got = codeName(err)
				} else {
					for st.Receive() {
					}
					got = codeName(st.Err())
					_ = st.Close()
				}
				return "outcome=" + got, strings.TrimSuffix(got, "+eof") == want && !strings.HasSuffix(got, "+eof")
			}})
		}
		// L1d: the caller's context is already over at the first Send of a bidi call; the response
		// side (Receive, ResponseHeader) answers at once with the context's code - before the
		// request side is closed
		for _, ending := range []string{"cancelled", "expired"} {
			ending := ending
			scs = append(scs, scenario{"life-response-after-failed-first-send", fmt.Sprintf("bidi call on a context already %s: Send, then Receive before CloseRequest, %s", ending, proto), func() (string, bool) {
				srv := startServer(connect.NewBidiStreamHandler("/s/m", func(ctx context.Context, s *connect.BidiStream[[]byte, []byte]) error {
					return nil
				}, connect.WithCodec(rawCodec{"raw"})), true)
				defer srv.Close()
				cl := connect.NewClient[[]byte, []byte](srv.Client(), srv.URL+"/s/m", append(protoOpts(proto), connect.WithCodec(rawCodec{"raw"}))...)
				ctx, cancel := context.WithCancel(context.Background())
				want := "canceled"
				if ending == "expired" {
					cancel()
					ctx, cancel = context.WithDeadline(context.Background(), time.Now().Add(-time.Second))
					want = "deadline_exceeded"
				}
				cancel()
				s := cl.CallBidiStream(ctx)
				serr := s.Send(&[]byte{1})
				done := make(chan string, 1)
				go func() {
					_, rerr := s.Receive()
					done <- codeName(rerr)
				}()
				got := ""
				select {
				case got = <-done:
				case <-time.After(3 * time.Second):
					got = "still blocked after 3s"
				}
				_ = s.CloseRequest()
				_ = s.CloseResponse()
				return fmt.Sprintf("send=%s receive=%s", codeName(serr), got), codeName(serr) == want && got == want
			}})
		}
		// L1e: a handler whose first Send fails (the codec cannot marshal the message) and which
		// then returns its own error: the client's Receive reports that error - the handler's
		// actual outcome - in every protocol
		scs = append(scs, scenario{"life-send-after-finish", "server-stream handler: first Send fails in the codec, then the handler returns aborted, " + proto, func() (string, bool) {
			h := connect.NewServerStreamHandler("/s/m", func(ctx context.Context, r *connect.Request[[]byte], s *connect.ServerStream[[]byte]) error {
				if err := s.Send(&[]byte{1}); err == nil {
					return connect.NewError(connect.CodeInternal, errors.New("the broken codec marshalled"))
				}
				return connect.NewError(connect.CodeAborted, errors.New("boom"))
			}, connect.WithCodec(brokenMarshalCodec{rawCodec{"raw"}}))
			srv := startServer(h, true)
			defer srv.Close()
			cl := connect.NewClient[[]byte, []byte](srv.Client(), srv.URL+"/s/m", append(protoOpts(proto), connect.WithCodec(rawCodec{"raw"}))...)
			st, err := cl.CallServerStream(context.Background(), connect.NewRequest(&[]byte{1}))
			if err != nil {
				return "call: " + codeName(err), false
			}
			for st.Receive() {
			}
			got := codeName(st.Err())
			_ = st.Close()
			return got, got == "aborted"
		}})
		// L1f: the server refuses the call at once (415: it does not know the client's codec)
		// while the client of a bidi call still has its request side open: the refusal arrives -
		// Receive returns without waiting for CloseRequest - and later Sends fail with io.EOF
		scs = append(scs, scenario{"life-response-after-failed-first-send", "bidi call with a codec the handler does not know (HTTP 415), Receive before CloseRequest, " + proto, func() (string, bool) {
			h := connect.NewBidiStreamHandler("/s/m", func(ctx context.Context, s *connect.BidiStream[[]byte, []byte]) error {
				return nil
			}, connect.WithCodec(rawCodec{"raw"}))
			srv := startServer(h, true)
			defer srv.Close()
			cl := connect.NewClient[[]byte, []byte](srv.Client(), srv.URL+"/s/m", append(protoOpts(proto), connect.WithCodec(rawCodec{"unheard-of"}))...)
			s := cl.CallBidiStream(context.Background())
			_ = s.Send(&[]byte{1})
			done := make(chan string, 1)
			go func() {
				_, rerr := s.Receive()
				done <- codeName(rerr)
			}()
			got := ""
			select {
			case got = <-done:
			case <-time.After(3 * time.Second):
				got = "still blocked after 3s"
			}
			var serr error
			for i := 0; i < 200 && serr == nil; i++ {
				serr = s.Send(&[]byte{2})
			}
			_ = s.CloseRequest()
			_ = s.CloseResponse()
			return fmt.Sprintf("receive=%s later-send-eof=%v", got, errors.Is(serr, io.EOF)), got != "still blocked after 3s" && got != "none" && errors.Is(serr, io.EOF)
		}})
		// L2b: the client abandons a server stream with megabytes still unread (more than the
		// library is willing to drain): Close returns, the response body is closed, and the
		// handler - held up by flow control until then - returns
		for _, h2 := range []bool{true, false} {
			h2 := h2
			if !h2 && proto == "grpc" {
				continue
			}
			scs = append(scs, scenario{"life-body-closed", fmt.Sprintf("server stream of 12 x 1 MiB abandoned after the first message (%s, h2=%v)", proto, h2), func() (string, bool) {
				returned := make(chan struct{})
				h := connect.NewServerStreamHandler("/s/m", func(ctx context.Context, r *connect.Request[[]byte], s *connect.ServerStream[[]byte]) error {
					defer close(returned)
					big := make([]byte, 1<<20) // incompressible: response compression must not shrink it
					x := uint64(88172645463325252)
					for i := range big {
						x ^= x << 13
						x ^= x >> 7
						x ^= x << 17
						big[i] = byte(x)
					}
					for i := 0; i < 12; i++ {
						if err := s.Send(&big); err != nil {
							return err
						}
					}
					return nil
				}, connect.WithCodec(rawCodec{"raw"}))
				srv := startServer(h, h2)
				defer srv.Close()
				cc := &countingClient{inner: srv.Client()}
				cl := connect.NewClient[[]byte, []byte](cc, srv.URL+"/s/m", append(protoOpts(proto), connect.WithCodec(rawCodec{"raw"}))...)
				st, err := cl.CallServerStream(context.Background(), connect.NewRequest(&[]byte{1}))
				if err != nil {
					return "call: " + err.Error(), false
				}
				if !st.Receive() {
					return "first Receive failed: " + fmt.Sprint(st.Err()), false
				}
				closed := make(chan error, 1)
				go func() { closed <- st.Close() }()
				select {
				case <-closed:
				case <-time.After(5 * time.Second):
					return "Close did not return within 5s", false
				}
				handlerDone := true
				select {
				case <-returned:
				case <-time.After(5 * time.Second):
					handlerDone = false
				}
				got := fmt.Sprintf("bodies=%d closes=%d handler-returned=%v", atomic.LoadInt32(&cc.bodies), atomic.LoadInt32(&cc.closes), handlerDone)
				return got, atomic.LoadInt32(&cc.closes) >= 1 && handlerDone
			}})
		}
		// L2: whatever happens to the response, its body is closed once the call is closed
		for _, variant := range []string{"ok", "status-404", "unknown-encoding", "handler-error", "bad-content"} {
			variant := variant
			for _, kind := range []string{"unary", "server", "bidi"} {
				kind := kind
				scs = append(scs, scenario{"life-body-closed", fmt.Sprintf("response body closed after the call (%s, %s, %s)", variant, kind, proto), func() (string, bool) {
					var hh http.Handler
					switch variant {
					case "status-404":
						hh = http.NotFoundHandler()
					case "unknown-encoding":
						hh = http.HandlerFunc(func(w http.ResponseWriter, r *http.Request) {
							_, _ = io.Copy(io.Discard, r.Body)
							w.Header().Set("Content-Type", r.Header.Get("Content-Type"))
							for _, k := range []string{"Content-Encoding", "Connect-Content-Encoding", "Grpc-Encoding"} {
								w.Header().Set(k, "zstd")
							}
							_, _ = w.Write(frame(0, []byte{1}))
						})
					case "bad-content":
						hh = http.HandlerFunc(func(w http.ResponseWriter, r *http.Request) {
							_, _ = io.Copy(io.Discard, r.Body)
							w.Header().Set("Content-Type", r.Header.Get("Content-Type"))
							_, _ = w.Write([]byte{0, 0, 0, 0, 200, 1, 2, 3})
						})
					default:
						var herr error
						if variant == "handler-error" {
							herr = connect.NewError(connect.CodeNotFound, errors.New("nope"))
						}
						switch kind {
						case "unary":
							hh = connect.NewUnaryHandler("/s/m", func(ctx context.Context, r *connect.Request[[]byte]) (*connect.Response[[]byte], error) {
								if herr != nil {
									return nil, herr
								}
								return connect.NewResponse(&[]byte{1}), nil
							}, connect.WithCodec(rawCodec{"raw"}))
						case "server":
							hh = connect.NewServerStreamHandler("/s/m", func(ctx context.Context, r *connect.Request[[]byte], s *connect.ServerStream[[]byte]) error {
								if herr == nil {
									_ = s.Send(&[]byte{1})
									_ = s.Send(&[]byte{2})
								}
								return herr
							}, connect.WithCodec(rawCodec{"raw"}))
						default:
							hh = connect.NewBidiStreamHandler("/s/m", func(ctx context.Context, s *connect.BidiStream[[]byte, []byte]) error {
								for {
									if _, err := s.Receive(); err != nil {
										break
									}
								}
								if herr == nil {
									_ = s.Send(&[]byte{1})
								}
								return herr
							}, connect.WithCodec(rawCodec{"raw"}))
						}
					}
					srv := startServer(hh, true)
					defer srv.Close()
					cc := &countingClient{inner: srv.Client()}
					cl := connect.NewClient[[]byte, []byte](cc, srv.URL+"/s/m", protoOpts(proto)...)
					ctx := context.Background()
					switch kind {
					case "unary":
						_, _ = cl.CallUnary(ctx, connect.NewRequest(&[]byte{}))
					case "server":
						s, err := cl.CallServerStream(ctx, connect.NewRequest(&[]byte{}))
						if err == nil {
							s.Receive() // only the first message: close before draining
							_ = s.Close()
						}
					default:
						s := cl.CallBidiStream(ctx)
						_ = s.Send(&[]byte{1})
						_ = s.CloseRequest()
						_, _ = s.Receive()
						_ = s.CloseResponse()
					}
					time.Sleep(20 * time.Millisecond)
					bodies, closes := atomic.LoadInt32(&cc.bodies), atomic.LoadInt32(&cc.closes)
					return fmt.Sprintf("bodies=%d closes=%d", bodies, closes), bodies == 0 || closes >= 1
				}})
			}
		}
		// L3: once Receive has reported an error it keeps reporting one
		for _, variant := range []string{"oversize", "corrupt", "bad-flags", "oversize/status-in-headers", "corrupt/status-in-headers"} {
			variant := variant
			// (status-in-headers: "Grpc-Status: 0" among the response headers - the trailers-only form
			// of success - and yet a body follows; F42)
			inHeaders := strings.HasSuffix(variant, "/status-in-headers")
			if inHeaders && proto == "connect" {
				continue
			}
			variant = strings.TrimSuffix(variant, "/status-in-headers")
			scs = append(scs, scenario{"life-receive-sticky", fmt.Sprintf("Receive after a failed Receive (%s, %s, Grpc-Status among the headers: %v)", variant, proto, inHeaders), func() (string, bool) {
				var bad []byte
				switch variant {
				case "oversize":
					bad = frame(0, bytes.Repeat([]byte{1}, 200))
				case "corrupt":
					bad = frame(0, []byte{0xEE, 1, 2})
				default:
					bad = frame(0x40, []byte{1})
				}
				body := append(append(frame(0, []byte{1}), bad...), frame(0, []byte{2})...)
				body = append(body, frame(0, []byte{3})...)
				hc := &staticClient{status: 200, header: http.Header{"Content-Type": {ctFor(proto, "bidi", "raw")}}, body: body, trailer: http.Header{"Grpc-Status": {"0"}}}
				if inHeaders {
					hc.header["Grpc-Status"] = []string{"0"}
				}
				cl := connect.NewClient[[]byte, []byte](hc, "http://h/s/m", append(protoOpts(proto), connect.WithReadMaxBytes(100))...)
				s := cl.CallBidiStream(context.Background())
				_ = s.CloseRequest()
				var results []string
				failedAt := -1
				ok := true
				for i := 0; i < 5; i++ {
					_, err := s.Receive()
					results = append(results, codeName(err))
					if err != nil && failedAt < 0 {
						failedAt = i
					}
					if failedAt >= 0 && err == nil {
						ok = false
					}
				}
				sendErr := s.Send(&[]byte{9})
				_ = s.CloseResponse()
				got := strings.Join(results, ",") + " send-after=" + codeName(sendErr)
				return got, ok && failedAt == 1
			}})
		}
		// L3b: a Receive that fails locally returns, so that the program can go on and close its
		// side, while the handler is still waiting for the client (F12: the gRPC client drains the
		// response body to reach the HTTP trailers and blocks until the handler ends)
		for _, variant := range []string{"oversize", "oversize-on-the-wire", "undecodable"} {
			variant := variant
			key := "life-receive-error-returns"
			if proto == "grpc" {
				key = "life-grpc-receive-error-drains" // known finding F12; any other protocol failing here is new
			}
			scs = append(scs, scenario{key, fmt.Sprintf("Receive of a rejected message (%s) while the handler waits for the client, %s", variant, proto), func() (string, bool) {
				h := connect.NewBidiStreamHandler("/s/m", func(ctx context.Context, s *connect.BidiStream[[]byte, []byte]) error {
					if _, err := s.Receive(); err != nil {
						return err
					}
					bad := bytes.Repeat([]byte{1}, 1000)
					if variant == "undecodable" {
						bad = []byte{0xEE, 1, 2}
					}
					if variant == "oversize-on-the-wire" { // incompressible: over the limit before decompression
						x := uint64(88172645463325252)
						for i := range bad {
							x ^= x << 13
							x ^= x >> 7
							x ^= x << 17
							bad[i] = byte(x)
						}
					}
					if err := s.Send(&bad); err != nil {
						return err
					}
					for {
						if _, err := s.Receive(); err != nil {
							return nil
						}
					}
				}, connect.WithCodec(rawCodec{"raw"}))
				srv := startServer(h, true)
				defer srv.Close()
				cl := connect.NewClient[[]byte, []byte](srv.Client(), srv.URL+"/s/m", append(protoOpts(proto), connect.WithReadMaxBytes(100))...)
				s := cl.CallBidiStream(context.Background())
				if err := s.Send(&[]byte{1}); err != nil {
					return "send: " + err.Error(), false
				}
				done := make(chan error, 1)
				go func() { _, err := s.Receive(); done <- err }()
				var got string
				ok := true
				select {
				case err := <-done:
					got = "receive=" + codeName(err)
					ok = codeName(err) == "invalid_argument"
				case <-time.After(1500 * time.Millisecond):
					got = "Receive still blocked after 1.5s"
					ok = false
				}
				_ = s.CloseRequest()
				if !ok {
					select {
					case err := <-done:
						got += "; returned after CloseRequest: " + codeName(err)
					case <-time.After(3 * time.Second):
						got += "; still blocked after CloseRequest"
					}
				}
				_ = s.CloseResponse()
				return got, ok
			}})
		}
		// L3c: a call that fails on the client while its request side is open is aborted, not
		// completed: the handler must not see a clean end of a request stream the client never closed
		if proto != "grpc" { // gRPC: Receive itself blocks here (F12)
			scs = append(scs, scenario{"life-abort-not-clean-end", "client call fails with the request side open; the handler's Receive must not report io.EOF, " + proto, func() (string, bool) {
				ended := make(chan string, 1)
				h := connect.NewBidiStreamHandler("/s/m", func(ctx context.Context, s *connect.BidiStream[[]byte, []byte]) error {
					if _, err := s.Receive(); err != nil {
						ended <- "first receive: " + err.Error()
						return err
					}
					bad := bytes.Repeat([]byte{1}, 1000) // over the client's read limit
					if err := s.Send(&bad); err != nil {
						ended <- "send: " + err.Error()
						return err
					}
					for {
						if _, err := s.Receive(); err != nil {
							if errors.Is(err, io.EOF) {
								ended <- "clean end (io.EOF)"
							} else {
								ended <- "aborted: " + codeName(err)
							}
							return nil
						}
					}
				}, connect.WithCodec(rawCodec{"raw"}))
				srv := startServer(h, true)
				defer srv.Close()
				cl := connect.NewClient[[]byte, []byte](srv.Client(), srv.URL+"/s/m", append(protoOpts(proto), connect.WithReadMaxBytes(100))...)
				s := cl.CallBidiStream(context.Background())
				if err := s.Send(&[]byte{1}); err != nil {
					return "send: " + err.Error(), false
				}
				_, rerr := s.Receive()
				// the program gives up here: it closes the response side without ever closing the request side
				_ = s.CloseResponse()
				select {
				case how := <-ended:
					return fmt.Sprintf("client receive=%s; handler: %s", codeName(rerr), how), !strings.HasPrefix(how, "clean end")
				case <-time.After(5 * time.Second):
					_ = s.CloseRequest()
					return "handler still waiting 5s after the client gave up", false
				}
			}})
		}
		// L3d: a request that cannot even be marshalled: the call returns (with an error), it does
		// not wait for a response to a request that was never started
		for _, kind := range []string{"unary", "client", "server"} {
			kind := kind
			scs = append(scs, scenario{"life-marshal-failure-returns", fmt.Sprintf("the request message cannot be marshalled, %s %s", kind, proto), func() (string, bool) {
				h := connect.NewUnaryHandler("/s/m", func(ctx context.Context, r *connect.Request[[]byte]) (*connect.Response[[]byte], error) {
					return connect.NewResponse(&[]byte{1}), nil
				}, connect.WithCodec(rawCodec{"raw"}))
				srv := startServer(h, true)
				defer srv.Close()
				opts := []connect.ClientOption{connect.WithCodec(brokenMarshalCodec{rawCodec{"raw"}})}
				switch proto {
				case "grpc":
					opts = append(opts, connect.WithGRPC())
				case "grpcweb":
					opts = append(opts, connect.WithGRPCWeb())
				}
				cl := connect.NewClient[[]byte, []byte](srv.Client(), srv.URL+"/s/m", opts...)
				done := make(chan error, 1)
				go func() {
					switch kind {
					case "unary":
						_, err := cl.CallUnary(context.Background(), connect.NewRequest(&[]byte{1}))
						done <- err
					case "server":
						s, err := cl.CallServerStream(context.Background(), connect.NewRequest(&[]byte{1}))
						if err == nil {
							for s.Receive() {
							}
							err = s.Err()
							_ = s.Close()
						}
						done <- err
					default:
						s := cl.CallClientStream(context.Background())
						_ = s.Send(&[]byte{1})
						_, err := s.CloseAndReceive()
						done <- err
					}
				}()
				select {
				case err := <-done:
					return codeName(err), err != nil
				case <-time.After(4 * time.Second):
					return "the call has not returned after 4s", false
				}
			}})
		}
		// L4: a complete call leaves no library goroutine behind and the handler saw end-of-request
		for _, h2 := range []bool{true, false} {
			h2 := h2
			scs = append(scs, scenario{"life-clean-finish", fmt.Sprintf("complete client-stream call, then no library goroutines (%s, h2=%v)", proto, h2), func() (string, bool) {
				sawEnd := make(chan bool, 1)
				h := connect.NewClientStreamHandler("/s/m", func(ctx context.Context, s *connect.ClientStream[[]byte]) (*connect.Response[[]byte], error) {
					n := 0
					for s.Receive() {
						n++
					}
					sawEnd <- s.Err() == nil && n == 3
					return connect.NewResponse(&[]byte{byte(n)}), nil
				}, connect.WithCodec(rawCodec{"raw"}))
				srv := startServer(h, h2)
				cc := &countingClient{inner: srv.Client()}
				cl := connect.NewClient[[]byte, []byte](cc, srv.URL+"/s/m", protoOpts(proto)...)
				s := cl.CallClientStream(context.Background())
				for i := 0; i < 3; i++ {
					if err := s.Send(&[]byte{byte(i)}); err != nil {
						return "send: " + err.Error(), false
					}
				}
				res, err := s.CloseAndReceive()
				if err != nil {
					return "close and receive: " + err.Error(), false
				}
				ended := <-sawEnd
				srv.Close()
				time.Sleep(30 * time.Millisecond)
				closes := atomic.LoadInt32(&cc.closes)
				return fmt.Sprintf("result=%v handler-saw-end=%v body-closes=%d", *res.Msg, ended, closes), ended && closes >= 1 && len(*res.Msg) == 1 && (*res.Msg)[0] == 3
			}})
		}
	}
	runScenarios(c, scs)
	watcherLeakProbe(c)
	// after everything: no goroutine of the library is left
	deadline := time.Now().Add(3 * time.Second)
	left := libraryGoroutines()
	for left > 0 && time.Now().Before(deadline) {
		time.Sleep(50 * time.Millisecond)
		left = libraryGoroutines()
	}
	c.Count("goroutine-check")
	if left > 0 {
		c.Fail("life-goroutine-leak", "all lifecycle scenarios finished and their servers closed", fmt.Sprintf("%d goroutines with connect-go frames remain", left), "goroutines started by the library remain after every call was closed")
	}
	cutTailProbes(c)
	// model-comparable ops: sequences of Receive calls over generated bodies (receiveMany)
	r := c.Rng
	n := 150
	if c.Thorough() {
		n = 3000
	}
	for i := 0; i < n; i++ {
		proto := []string{"connect", "grpc", "grpcweb"}[r.Intn(3)]
		var items []bodyItem
		k := r.Intn(5)
		for j := 0; j < k; j++ {
			switch r.Intn(7) {
			case 0:
				items = append(items, bodyItem{kind: "f", data: []byte{0xEE, 1}}) // undecodable
			case 1:
				items = append(items, bodyItem{kind: "f", data: bytes.Repeat([]byte{7}, 260)}) // over the limit of 200
			case 2:
				items = append(items, bodyItem{kind: "f", flags: 0x40, data: []byte{1}}) // undefined flags
			case 3:
				items = append(items, bodyItem{kind: "f", flags: 1, data: []byte{3, 7}}) // compressed without encoding header
			default:
				items = append(items, bodyItem{kind: "f", data: genPayloadNoReject(r, 20)})
			}
		}
		// the body ends inside the next message - 1 to 4 bytes into its prefix, or inside its
		// payload - and yet reports a clean end (gRPC: the trailers may well say status 0): never
		// a successful end of the call (round 13, C04-ms). The unfinished envelope is the last
		// thing in the body.
		var cutTail []byte
		if r.Chance(25) {
			cutFrame := frame(0, genPayloadNoReject(r, 12))
			if len(cutFrame) > 5 || r.Chance(50) {
				cutTail = cutFrame[:1+r.Intn(len(cutFrame)-1)]
			}
		}
		resp := &sresp{status: 200, header: hdr{"Content-Type": {ctFor(proto, "bidi", "raw")}}, trailer: hdr{}}
		switch r.Intn(4) {
		case 0: // no terminator
		case 1: // error terminator
			switch proto {
			case "connect":
				items = append(items, bodyItem{kind: "end", err: &wireErr{code: 9, msg: "x"}, header: hdr{}})
			case "grpcweb":
				items = append(items, bodyItem{kind: "web", header: hdr{"Grpc-Status": {"9"}}})
			default:
				resp.trailer = hdr{"Grpc-Status": {"9"}}
			}
		default:
			switch proto {
			case "connect":
				items = append(items, bodyItem{kind: "end", header: hdr{}})
			case "grpcweb":
				items = append(items, bodyItem{kind: "web", header: hdr{"Grpc-Status": {"0"}}})
			default:
				resp.trailer = hdr{"Grpc-Status": {"0"}}
			}
		}
		if cutTail != nil {
			// in-body terminators would come after the cut: leave them out (gRPC keeps its trailers)
			for len(items) > 0 && items[len(items)-1].kind != "f" {
				items = items[:len(items)-1]
			}
			items = append(items, bodyItem{kind: "raw", data: cutTail})
		} else if r.Chance(20) { // messages after the terminator must never be delivered either
			items = append(items, bodyItem{kind: "f", data: []byte{5}})
		}
		if proto != "connect" && r.Chance(20) {
			// Grpc-Status among the headers (the trailers-only form) and yet a body: with status 0
			// Receive reads that body - and a failure in it ends the call like any other (F42)
			resp.header["Grpc-Status"] = []string{[]string{"0", "0", "0", "9", "abc"}[r.Intn(5)]}
		}
		resp.body = items
		rseqOp(c, fmt.Sprintf("rseq proto=%s max=200 n=%d hdr=%s body=%s trl=%s", proto, len(items)+3, showHdr(resp.header), showBody(resp.body), showHdr(resp.trailer)))
		// the same response through the typed wrapper: Receive until the end (plus two), with Err()
		// asked along the way, then a random mix of Receive / Err / Close
		ops := ""
		for i := 0; i < len(items)+2; i++ {
			ops += "r"
			if r.Chance(30) {
				ops += "e"
			}
		}
		for i := 0; i < 6; i++ {
			ops += string("recrec"[r.Intn(6)])
		}
		sresp2 := *resp
		sresp2.header = hdr{"Content-Type": {ctFor(proto, "server", "raw")}}
		if v, ok := resp.header["Grpc-Status"]; ok {
			sresp2.header["Grpc-Status"] = v
		}
		sseqOp(c, fmt.Sprintf("sseq proto=%s max=200 ops=%s hdr=%s body=%s trl=%s", proto, ops, showHdr(sresp2.header), showBody(sresp2.body), showHdr(sresp2.trailer)))
	}
}

func genPayloadNoReject(r *Rng, maxLen int) []byte {
	p := genPayload(r, maxLen)
	if len(p) > 0 && p[0] == 0xEE {
		p[0] = 1
	}
	return p
}

// rseqOp: K consecutive Receive calls on one bidi call over a structured body.
func rseqOp(c *Ctx, op string) {
	c.Begin(op)
	a := kvArgs(strings.Fields(op))
	proto := a["proto"]
	resp := &sresp{status: 200, header: parseHdr(a["hdr"]), body: parseBody(a["body"]), trailer: parseHdr(a["trl"])}
	header, body, trailer := resp.serialize(proto)
	var results []string
	ans := safely(func() string {
		hc := &staticClient{status: 200, header: header, trailer: trailer, body: body}
		cl := connect.NewClient[[]byte, []byte](hc, "http://h/s/m", append(protoOpts(proto), connect.WithReadMaxBytes(atoi(a["max"])),
			connect.WithAcceptCompression("rle", newRLEDecompressor, newRLECompressor))...)
		s := cl.CallBidiStream(context.Background())
		_ = s.CloseRequest()
		for i := 0; i < atoi(a["n"]); i++ {
			m, err := s.Receive()
			switch {
			case err == nil:
				results = append(results, "ok:"+hx(*m))
			case errors.Is(err, io.EOF):
				results = append(results, "eof")
			default:
				results = append(results, fmt.Sprintf("fail:%d", connect.CodeOf(err)))
			}
		}
		_ = s.CloseResponse()
		return strings.Join(results, " ")
	})
	failed := false
	for _, r := range results {
		if !strings.HasPrefix(r, "ok:") {
			failed = true
		} else if failed {
			c.Fail("life-receive-sticky", op, ans, "Receive delivered a message after an earlier Receive had reported an error or the end of the stream")
			break
		}
	}
	if n := len(resp.body); n > 0 && resp.body[n-1].kind == "raw" && len(resp.body[n-1].data) > 0 && !failed0(results) {
		c.Fail("cut-inside-message-clean-end", op, ans, "the response body ends inside an envelope: Receive must fail, not report the end of the stream")
	}
	c.Count("rseq:" + proto)
	c.Emit(op, ans, true)
}

// sseqOp: a sequence of Receive / Err / Close calls on one ServerStreamForClient over a
// structured body (the transport fills in HTTP trailers when it reports the end of the body).
//
//	sseq proto=P max=N ops=WORD(r|e|c) hdr= body= trl=  ->  t:HEX | f | e:none | e:CODE | c  ...
func sseqOp(c *Ctx, op string) {
	c.Begin(op)
	a := kvArgs(strings.Fields(op))
	proto := a["proto"]
	resp := &sresp{status: 200, header: parseHdr(a["hdr"]), body: parseBody(a["body"]), trailer: parseHdr(a["trl"])}
	header, body, trailer := resp.serialize(proto)
	var out []string
	sawFalse, errAfterFalse, changed := false, "", false
	ans := safely(func() string {
		hc := &shapedClient{status: 200, header: header, trailer: trailer, body: body, shape: transportShape{}}
		cl := connect.NewClient[[]byte, []byte](hc, "http://h/s/m", append(protoOpts(proto), connect.WithCodec(rawCodec{"raw"}), connect.WithReadMaxBytes(atoi(a["max"])),
			connect.WithAcceptCompression("rle", newRLEDecompressor, newRLECompressor))...)
		st, err := cl.CallServerStream(context.Background(), connect.NewRequest(&[]byte{1}))
		if err != nil {
			return "call:" + codeName(err)
		}
		for _, ch := range a["ops"] {
			switch ch {
			case 'r':
				if st.Receive() {
					out = append(out, "t:"+hx(*st.Msg()))
					if sawFalse {
						changed = true
					}
				} else {
					out = append(out, "f")
					sawFalse = true
				}
			case 'e':
				e := "e:none"
				if err := st.Err(); err != nil {
					e = fmt.Sprintf("e:%d", connect.CodeOf(err))
				}
				out = append(out, e)
				if sawFalse {
					if errAfterFalse != "" && errAfterFalse != e {
						changed = true
					}
					errAfterFalse = e
				}
			case 'c':
				_ = st.Close()
				out = append(out, "c")
			}
		}
		return strings.Join(out, " ")
	})
	if changed {
		c.Fail("life-receive-sticky", op, ans, "after Receive returned false, a later Receive delivered a message or Err() changed its verdict (Close must not wipe it)")
	}
	if n := len(resp.body); n > 0 && resp.body[n-1].kind == "raw" && len(resp.body[n-1].data) > 0 && sawFalse && strings.Contains(ans, "e:none") && !strings.Contains(ans, "c e:none") {
		// (an e:none before the first false Receive is followed by the failure; only look at runs
		// in which Err() was asked after Receive had returned false and before Close)
		if i := strings.Index(ans, " f"); i >= 0 && strings.Contains(ans[i:], "e:none") {
			c.Fail("cut-inside-message-clean-end", op, ans, "the response body ends inside an envelope: Err() must report a failure once Receive returned false")
		}
	}
	c.Count("sseq:" + proto)
	c.Emit(op, ans, true)
}

// brokenMarshalCodec cannot marshal anything (an application type the codec does not handle, a
// string that is not UTF-8, ...).
type brokenMarshalCodec struct{ rawCodec }

func (brokenMarshalCodec) Marshal(any) ([]byte, error) {
	return nil, errors.New("cannot marshal this message")
}

// watcherLeakProbe runs alone, after the concurrent scenarios: a call with a cancellable context
// that is NOT cancelled when the call ends (a long-lived parent context) leaves nothing behind
// once it was closed - also when closing the response side fails because the stream was reset.
func watcherLeakProbe(c *Ctx) {
	deadline := time.Now().Add(3 * time.Second)
	for libraryGoroutines() > 0 && time.Now().Before(deadline) {
		time.Sleep(50 * time.Millisecond)
	}
	if libraryGoroutines() > 0 {
		return // something else is still running: the final check reports it
	}
	for _, proto := range []string{"connect", "grpcweb"} {
		release := make(chan struct{})
		h := connect.NewBidiStreamHandler("/s/m", func(ctx context.Context, s *connect.BidiStream[[]byte, []byte]) error {
			if _, err := s.Receive(); err != nil {
				return err
			}
			bad := bytes.Repeat([]byte{1}, 1000)
			_ = s.Send(&bad)
			select {
			case <-release:
			case <-ctx.Done():
			}
			return nil
		}, connect.WithCodec(rawCodec{"raw"}))
		srv := startServer(h, true)
		cl := connect.NewClient[[]byte, []byte](srv.Client(), srv.URL+"/s/m", append(protoOpts(proto), connect.WithReadMaxBytes(100))...)
		ctx, cancel := context.WithCancel(context.Background())
		finished := watchdog(10*time.Second, func() {
			s := cl.CallBidiStream(ctx)
			_ = s.Send(&[]byte{1})
			_, _ = s.Receive() // rejected: over the read limit; the call has failed
			_ = s.CloseRequest()
			_ = s.CloseResponse() // may fail: the stream was reset
		})
		close(release)
		left := -1
		if finished {
			wait := time.Now().Add(2 * time.Second)
			for left = libraryGoroutines(); left > 0 && time.Now().Before(wait); left = libraryGoroutines() {
				time.Sleep(50 * time.Millisecond)
			}
		}
		c.Count("life-watcher-probe")
		desc := "bidi call with a cancellable, never cancelled context; Receive rejected a message; CloseRequest, CloseResponse; " + proto
		if !finished {
			c.Fail("life-watcher-leak-hang", desc, "watchdog expired", "the call did not finish")
		} else if left > 0 {
			c.Fail("life-goroutine-leak", desc, fmt.Sprintf("%d goroutines with connect-go frames remain while the context is still live", left), "a goroutine started by the library outlives the closed call")
		}
		cancel()
		srv.Close()
	}
}

// slowReader delivers its data after a delay (a slow upload), whatever the context says.
type slowReader struct {
	data  []byte
	delay time.Duration
	done  bool
}

func (r *slowReader) Read(p []byte) (int, error) {
	if !r.done {
		time.Sleep(r.delay)
		r.done = true
	}
	if len(r.data) == 0 {
		return 0, io.EOF
	}
	n := copy(p, r.data)
	r.data = r.data[n:]
	return n, nil
}

// failed0: the first result that is not a message is a failure (not the end of the stream)
func failed0(results []string) bool {
	for _, r := range results {
		if strings.HasPrefix(r, "fail:") {
			return true
		}
		if r == "eof" {
			return false
		}
	}
	return true
}

// cutTailProbes: every way a streaming response can end inside an envelope (1-4 bytes of the
// prefix, the whole prefix, part of the payload), after 0-2 whole messages, in all three
// protocols; plain gRPC with HTTP trailers that say status 0, status 9, or nothing.
func cutTailProbes(c *Ctx) {
	whole := frame(0, []byte{9, 8, 7, 6})
	for _, proto := range []string{"connect", "grpc", "grpcweb"} {
		for _, cut := range []int{1, 2, 3, 4, 5, 7} {
			for before := 0; before <= 2; before++ {
				trls := []hdr{{}}
				if proto == "grpc" {
					trls = []hdr{{"Grpc-Status": {"0"}}, {"Grpc-Status": {"9"}}, {}}
				}
				for _, trl := range trls {
					var items []bodyItem
					for i := 0; i < before; i++ {
						items = append(items, bodyItem{kind: "f", data: []byte{byte(i + 1), 2}})
					}
					items = append(items, bodyItem{kind: "raw", data: whole[:cut]})
					rseqOp(c, fmt.Sprintf("rseq proto=%s max=200 n=%d hdr=%s body=%s trl=%s", proto, before+3,
						showHdr(hdr{"Content-Type": {ctFor(proto, "bidi", "raw")}}), showBody(items), showHdr(trl)))
					sseqOp(c, fmt.Sprintf("sseq proto=%s max=200 ops=%s hdr=%s body=%s trl=%s", proto, strings.Repeat("r", before+1)+"erec",
						showHdr(hdr{"Content-Type": {ctFor(proto, "server", "raw")}}), showBody(items), showHdr(trl)))
				}
			}
		}
	}
}
