package main

import (
	"bytes"
	"compress/gzip"
	"context"
	"errors"
	"fmt"
	"google.golang.org/protobuf/proto"
	"google.golang.org/protobuf/reflect/protoreflect"
	"google.golang.org/protobuf/types/known/anypb"
	"google.golang.org/protobuf/types/known/wrapperspb"
	"io"
	"net/http"
	"net/http/httptest"
	"strings"
	"sync"
	"sync/atomic"
	"time"
	"unsafe"

	connect "github.com/bufbuild/connect-go"
)

// S-conc (C13): G goroutines x K calls with pairwise distinct payloads over ONE client set and
// ONE handler set (mixed protocols, kinds, compressions), values re-checked after other calls
// ran, pool traffic recorded through the verif observer and validated against the ownership
// model (pool.trace ops). Run under the race detector by ./check.

func init() { register("conc", "C13", streamConc) }

// slowRLE: the RLE compressor whose Close yields, to widen windows in which a (de)compressor is
// in the pool and still in use.
type slowRLECompressor struct{ rleCompressor }

func (c *slowRLECompressor) Close() error {
	time.Sleep(20 * time.Microsecond)
	return c.rleCompressor.Close()
}

type poolRecorder struct {
	mu     sync.Mutex
	ids    map[*bytes.Buffer]int
	events []string
}

// pendingReads: memory regions a transport's body Read has been asked to fill and has not
// filled yet. A buffer that goes back to the pool while such a read is pending will be written
// to by that read when it belongs to somebody else.
var pendingReads struct {
	mu      sync.Mutex
	regions map[*blockingBody][2]uintptr
	hits    []string
}

func region(p []byte) [2]uintptr {
	p = p[:cap(p)]
	if len(p) == 0 {
		return [2]uintptr{}
	}
	start := uintptr(unsafe.Pointer(&p[0]))
	return [2]uintptr{start, start + uintptr(len(p))}
}

func (p *poolRecorder) observe(put bool, b *bytes.Buffer) {
	if put {
		r := region(b.Bytes())
		pendingReads.mu.Lock()
		for body, pr := range pendingReads.regions {
			if r[0] < pr[1] && pr[0] < r[1] {
				pendingReads.hits = append(pendingReads.hits, body.name)
			}
		}
		pendingReads.mu.Unlock()
	}
	p.mu.Lock()
	id, ok := p.ids[b]
	if !ok {
		id = len(p.ids) + 1
		p.ids[b] = id
	}
	if len(p.events) < 200000 {
		if put {
			p.events = append(p.events, fmt.Sprintf("p%d", id))
		} else {
			p.events = append(p.events, fmt.Sprintf("g%d", id))
		}
	}
	p.mu.Unlock()
}

// codecRecorder: the same for compressors / decompressors entering and leaving their sync.Pools
type codecRecorder struct {
	mu     sync.Mutex
	ids    map[any]int
	events []string
}

func (p *codecRecorder) observe(put bool, codec any) {
	p.mu.Lock()
	id, ok := p.ids[codec]
	if !ok {
		id = len(p.ids) + 1
		p.ids[codec] = id
	}
	if len(p.events) < 200000 {
		if put {
			p.events = append(p.events, fmt.Sprintf("p%d", id))
		} else {
			p.events = append(p.events, fmt.Sprintf("g%d", id))
		}
	}
	p.mu.Unlock()
}

func payloadFor(g, k, size int) []byte {
	tag := fmt.Sprintf("<g%02d-k%03d>", g, k)
	return bytes.Repeat([]byte(tag), 1+size/len(tag))
}

func streamConc(c *Ctx) {
	yieldMu.Lock()
	defer yieldMu.Unlock()
	rec := &poolRecorder{ids: map[*bytes.Buffer]int{}}
	connect.VerifSetPoolObserver(rec.observe)
	defer connect.VerifSetPoolObserver(nil)
	crec := &codecRecorder{ids: map[any]int{}}
	connect.VerifSetCodecPoolObserver(crec.observe)
	defer connect.VerifSetCodecPoolObserver(nil)

	newSlow := func() connect.Compressor { return &slowRLECompressor{} }
	hopts := []connect.HandlerOption{connect.WithCodec(rawCodec{"raw"}), connect.WithCompression("rle", newRLEDecompressor, newSlow), connect.WithCompressMinBytes(8)}
	mux := http.NewServeMux()
	echo := func(m []byte) []byte { return append([]byte("echo:"), m...) }
	mux.Handle("/s/unary", connect.NewUnaryHandler("/s/unary", func(ctx context.Context, r *connect.Request[[]byte]) (*connect.Response[[]byte], error) {
		out := echo(*r.Msg)
		res := connect.NewResponse(&out)
		res.Header().Set("X-Call-Id", r.Header().Get("X-Call-Id"))
		return res, nil
	}, hopts...))
	mux.Handle("/s/bidi", connect.NewBidiStreamHandler("/s/bidi", func(ctx context.Context, s *connect.BidiStream[[]byte, []byte]) error {
		s.ResponseHeader().Set("X-Call-Id", s.RequestHeader().Get("X-Call-Id"))
		for {
			m, err := s.Receive()
			if err != nil {
				if errors.Is(err, io.EOF) {
					return nil
				}
				return err
			}
			out := echo(*m)
			if err := s.Send(&out); err != nil {
				return err
			}
		}
	}, hopts...))
	// the same echo behind a read limit: over-limit (after decompression) calls are rejected and
	// must leave the shared decompressors usable for the valid calls around them
	const readLimit = 2048
	mux.Handle("/s/limited", connect.NewUnaryHandler("/s/limited", func(ctx context.Context, r *connect.Request[[]byte]) (*connect.Response[[]byte], error) {
		out := echo(*r.Msg)
		res := connect.NewResponse(&out)
		res.Header().Set("X-Call-Id", r.Header().Get("X-Call-Id"))
		return res, nil
	}, append(hopts, connect.WithReadMaxBytes(readLimit))...))
	mux.Handle("/s/fail", connect.NewUnaryHandler("/s/fail", func(ctx context.Context, r *connect.Request[[]byte]) (*connect.Response[[]byte], error) {
		e := connect.NewError(connect.CodeFailedPrecondition, fmt.Errorf("failed for %s", r.Header().Get("X-Call-Id")))
		e.Meta().Set("X-Call-Id", r.Header().Get("X-Call-Id"))
		return nil, e
	}, hopts...))
	// a peer that answers gRPC calls without any grpc-status (protocol error on the client)
	mux.Handle("/s/nostatus", http.HandlerFunc(func(w http.ResponseWriter, r *http.Request) {
		_, _ = io.Copy(io.Discard, r.Body)
		w.Header().Set("Content-Type", r.Header.Get("Content-Type"))
		w.Header().Set("X-Call-Id", r.Header.Get("X-Call-Id"))
		w.WriteHeader(200)
	}))
	srv := httptest.NewUnstartedServer(mux)
	srv.EnableHTTP2 = true
	srv.StartTLS()
	defer srv.Close()

	type clientSet struct {
		name  string
		unary *connect.Client[[]byte, []byte]
		bidi  *connect.Client[[]byte, []byte]
		fail  *connect.Client[[]byte, []byte]
		nost  *connect.Client[[]byte, []byte]
		lim   *connect.Client[[]byte, []byte]
		comp  string
	}
	var sets []clientSet
	for _, proto := range []string{"connect", "grpc", "grpcweb"} {
		for _, comp := range []string{"", "rle", "gzip"} {
			opts := append(protoOpts(proto), connect.WithAcceptCompression("rle", newRLEDecompressor, newSlow), connect.WithCompressMinBytes(8))
			if comp != "" {
				opts = append(opts, connect.WithSendCompression(comp))
			}
			sets = append(sets, clientSet{
				name:  proto + "/" + comp,
				unary: connect.NewClient[[]byte, []byte](srv.Client(), srv.URL+"/s/unary", opts...),
				bidi:  connect.NewClient[[]byte, []byte](srv.Client(), srv.URL+"/s/bidi", opts...),
				fail:  connect.NewClient[[]byte, []byte](srv.Client(), srv.URL+"/s/fail", opts...),
				nost:  connect.NewClient[[]byte, []byte](srv.Client(), srv.URL+"/s/nostatus", opts...),
				lim:   connect.NewClient[[]byte, []byte](srv.Client(), srv.URL+"/s/limited", opts...),
				comp:  comp,
			})
		}
	}
	G, K := 16, 12
	if c.Thorough() {
		G, K = 32, 60
	}
	type held struct {
		desc string
		msg  *[]byte
		want []byte
		hdr  http.Header
		err  error
		id   string
	}
	var mu sync.Mutex
	var heldValues []held
	fail := func(key, desc, got, what string) {
		c.Fail(key, desc, got, what)
	}
	var wg sync.WaitGroup
	for g := 0; g < G; g++ {
		wg.Add(1)
		go func(g int) {
			defer wg.Done()
			for k := 0; k < K; k++ {
				set := sets[(g*7+k)%len(sets)]
				id := fmt.Sprintf("g%02d-k%03d", g, k)
				size := []int{3, 40, 600, 5000}[(g+k)%4]
				payload := payloadFor(g, k, size)
				desc := fmt.Sprintf("%s call %s size=%d", set.name, id, len(payload))
				ctx := context.Background()
				if k%5 == 4 {
					// a corrupt compressed request from some other peer, on the same handler
					enc := []string{"gzip", "rle"}[g%2]
					bad := frame(1, []byte("this is not compressed data"))
					if k%10 == 9 {
						// … or one whose body stops in the middle of a message
						bad = append(envPrefix(0, 64), []byte("only a few bytes")...)
					}
					req, _ := http.NewRequest(http.MethodPost, srv.URL+"/s/unary", bytes.NewReader(bad))
					req.Header.Set("Content-Type", "application/grpc-web+raw")
					req.Header.Set("Grpc-Encoding", enc)
					if res, err := srv.Client().Do(req); err == nil {
						_, _ = io.Copy(io.Discard, res.Body)
						_ = res.Body.Close()
					}
					c.Count("conc:corrupt")
				}
				if k%3 == 1 && set.comp != "" {
					// behind the read limit: an over-limit message (small on the wire, large after
					// decompression) every other time, a valid compressible one otherwise
					over := (g+k)%2 == 0
					body := append(bytes.Repeat([]byte{byte('a' + g%26)}, 900), []byte(id)...)
					if over {
						body = append(bytes.Repeat([]byte{byte('A' + g%26)}, 3*readLimit), []byte(id)...)
					}
					req := connect.NewRequest(&body)
					req.Header().Set("X-Call-Id", id)
					res, err := set.lim.CallUnary(ctx, req)
					c.Count("conc:limited")
					switch {
					case over && err == nil:
						fail("conc-limit-not-enforced", desc, "ok", "a message decompressing to 3x the read limit was accepted")
					case over && connect.CodeOf(err) != connect.CodeInvalidArgument && connect.CodeOf(err) != connect.CodeResourceExhausted:
						fail("conc-call-failed", desc, err.Error(), "an over-limit call failed with an unexpected error")
					case !over && err != nil:
						fail("conc-call-failed", desc, err.Error(), "a valid call behind the read limit failed while over-limit calls ran concurrently")
					case !over && !bytes.Equal(*res.Msg, echo(body)):
						fail("conc-crosstalk", desc, string((*res.Msg)[:min(len(*res.Msg), 40)]), "the response is not this call's own payload")
					}
				}
				switch k % 4 {
				case 0, 1:
					req := connect.NewRequest(&payload)
					req.Header().Set("X-Call-Id", id)
					res, err := set.unary.CallUnary(ctx, req)
					c.Count("conc:unary")
					if err != nil {
						fail("conc-call-failed", desc, err.Error(), "a concurrent call failed")
						continue
					}
					if !bytes.Equal(*res.Msg, echo(payload)) {
						fail("conc-crosstalk", desc, string((*res.Msg)[:min(len(*res.Msg), 40)]), "the response is not this call's own payload")
					}
					if res.Header().Get("X-Call-Id") != id {
						fail("conc-crosstalk-header", desc, res.Header().Get("X-Call-Id"), "the response header belongs to another call")
					}
					mu.Lock()
					heldValues = append(heldValues, held{desc: desc, msg: res.Msg, want: echo(payload), hdr: res.Header(), id: id})
					mu.Unlock()
				case 2:
					s := set.bidi.CallBidiStream(ctx)
					s.RequestHeader().Set("X-Call-Id", id)
					c.Count("conc:bidi")
					// sender and receiver goroutines on one stream
					var inner sync.WaitGroup
					inner.Add(1)
					go func() {
						defer inner.Done()
						for j := 0; j < 3; j++ {
							p := append([]byte{byte('0' + j)}, payload...)
							if err := s.Send(&p); err != nil {
								fail("conc-call-failed", desc, err.Error(), "Send failed")
								break
							}
						}
						_ = s.CloseRequest()
					}()
					for j := 0; ; j++ {
						m, err := s.Receive()
						if err != nil {
							if !errors.Is(err, io.EOF) {
								fail("conc-call-failed", desc, err.Error(), "Receive failed")
							} else if j != 3 {
								fail("conc-crosstalk", desc, fmt.Sprint(j), "wrong number of echoed messages")
							}
							break
						}
						want := echo(append([]byte{byte('0' + j)}, payload...))
						if !bytes.Equal(*m, want) {
							fail("conc-crosstalk", desc, string((*m)[:min(len(*m), 40)]), "a streamed response is not this call's own payload")
						}
					}
					inner.Wait()
					// a finished stream asked again keeps saying io.EOF and touches nothing that other
					// calls may own by now
					if _, again := s.Receive(); !errors.Is(again, io.EOF) {
						fail("conc-call-failed", desc, fmt.Sprint(again), "Receive after the clean end of the stream must keep reporting io.EOF")
					}
					_ = s.CloseResponse()
				default:
					cl := set.fail
					if k%8 == 7 && !strings.HasPrefix(set.name, "connect/") {
						cl = set.nost // gRPC / gRPC-Web response without any grpc-status: a protocol error on the client
					}
					req := connect.NewRequest(&payload)
					req.Header().Set("X-Call-Id", id)
					_, err := cl.CallUnary(ctx, req)
					c.Count("conc:error")
					var ce *connect.Error
					if !errors.As(err, &ce) {
						fail("conc-call-failed", desc, fmt.Sprint(err), "expected a coded error")
						continue
					}
					if got := ce.Meta().Get("X-Call-Id"); got != id {
						fail("conc-crosstalk-error", desc, got, "the error's metadata belongs to another call")
					}
					mu.Lock()
					heldValues = append(heldValues, held{desc: desc, err: err, id: id})
					mu.Unlock()
				}
			}
		}(g)
	}
	wg.Wait()
	// values handed to user code stay intact after other calls ran
	for _, h := range heldValues {
		if h.msg != nil && !bytes.Equal(*h.msg, h.want) {
			fail("conc-value-changed", h.desc, string((*h.msg)[:min(len(*h.msg), 40)]), "a message handed to user code changed while other calls ran")
		}
		if h.hdr != nil && h.hdr.Get("X-Call-Id") != h.id {
			fail("conc-value-changed", h.desc, h.hdr.Get("X-Call-Id"), "a header handed to user code changed while other calls ran")
		}
		if h.err != nil {
			var ce *connect.Error
			if errors.As(h.err, &ce) && ce.Meta().Get("X-Call-Id") != h.id {
				fail("conc-value-changed", h.desc, ce.Meta().Get("X-Call-Id"), "an error handed to user code changed while other calls ran")
			}
		}
	}
	// the recorded pool traffic against the ownership model
	rec.mu.Lock()
	events := rec.events
	rec.mu.Unlock()
	for i := 0; i < len(events); i += 4000 {
		// each chunk is validated on its own; buffers first seen inside a chunk are adopted
		end := i + 4000
		if end > len(events) {
			end = len(events)
		}
		verdict := traceVerdict(events[i:end])
		if verdict != "accepted" {
			c.Fail("conc-pool-discipline", fmt.Sprintf("recorded pool trace, events %d..%d", i, end), verdict, "a pooled buffer was handed out while still out, or returned twice (event index in the chunk)")
		}
		c.Emit("pool.trace "+strings.Join(events[i:end], " "), verdict, true)
	}
	// … and the (de)compressor pools
	crec.mu.Lock()
	cevents := crec.events
	crec.mu.Unlock()
	for i := 0; i < len(cevents); i += 4000 {
		end := i + 4000
		if end > len(cevents) {
			end = len(cevents)
		}
		verdict := traceVerdict(cevents[i:end])
		if verdict != "accepted" {
			c.Fail("conc-codec-pool-discipline", fmt.Sprintf("recorded compressor/decompressor pool trace, events %d..%d", i, end), verdict, "a compressor or decompressor was handed out while still out, or returned twice (event index in the chunk)")
		}
		c.Emit("pool.trace "+strings.Join(cevents[i:end], " "), verdict, true)
	}
	sharedValueProbes(c)
	pendingReadProbe(c)
	earlyAccessorProbe(c)
	requestIsolationProbes(c)
	codecMemoryProbe(c)
	sharedEndErrorProbe(c)
	constructionErrorProbe(c)
	errorDetailBleedProbe(c)
	requestAcrossClientsProbe(c)
	sharedHandlerErrorProbe(c)
	requestHeaderAfterCloseProbe(c)
	sharedContextErrorProbe(c)
	negotiationPerCallProbe(c)
	sharedDecodeTargetProbe(c)
	recoverPerStreamProbe(c)
	c.Note("%d goroutines x %d calls over %d client configurations; %d buffer-pool and %d codec-pool events recorded", G, K, len(sets), len(events), len(cevents))
}

// zeroCopyCodec hands the library the message's own memory: nothing in the Codec contract says
// that the returned slice changes hands.
type zeroCopyCodec struct{ rawCodec }

func (zeroCopyCodec) Marshal(msg any) ([]byte, error) {
	p, ok := msg.(*[]byte)
	if !ok {
		return nil, fmt.Errorf("raw codec: %T", msg)
	}
	return *p, nil
}

// codecMemoryProbe (F29): what a codec returns from Marshal stays the codec's (here: the
// caller's message). The library may read it; it may not keep it as scratch space for later
// calls - the message a caller sent must be intact after this and every later call.
func codecMemoryProbe(c *Ctx) {
	for _, proto := range []string{"connect", "grpc", "grpcweb"} {
		for _, kind := range []string{"unary", "client"} {
			echo := func(m []byte) []byte { return bytes.Repeat([]byte{'z'}, len(m)) }
			var h http.Handler
			if kind == "unary" {
				h = connect.NewUnaryHandler("/s/m", func(ctx context.Context, r *connect.Request[[]byte]) (*connect.Response[[]byte], error) {
					out := echo(*r.Msg)
					return connect.NewResponse(&out), nil
				}, connect.WithCodec(rawCodec{"raw"}))
			} else {
				h = connect.NewClientStreamHandler("/s/m", func(ctx context.Context, s *connect.ClientStream[[]byte]) (*connect.Response[[]byte], error) {
					n := 0
					for s.Receive() {
						n += len(*s.Msg())
					}
					out := bytes.Repeat([]byte{'z'}, n)
					return connect.NewResponse(&out), s.Err()
				}, connect.WithCodec(rawCodec{"raw"}))
			}
			desc := fmt.Sprintf("%s %s calls through a codec whose Marshal returns the message's own bytes: the same 2000-byte message sent in three calls", proto, kind)
			c.Begin(desc)
			c.Count("codec-memory-probe")
			got := safely(func() string {
				opts := append(protoOpts(proto), connect.WithCodec(zeroCopyCodec{rawCodec{"raw"}}), connect.WithCompressMinBytes(1<<20))
				cl := connect.NewClient[[]byte, []byte](&inprocClient{h: h}, "http://h/s/m", opts...)
				msg := bytes.Repeat([]byte{'m'}, 2000)
				want := append([]byte(nil), msg...)
				for i := 1; i <= 3; i++ {
					var err error
					if kind == "unary" {
						_, err = cl.CallUnary(context.Background(), connect.NewRequest(&msg))
					} else {
						st := cl.CallClientStream(context.Background())
						_ = st.Send(&msg)
						_, err = st.CloseAndReceive()
					}
					if !bytes.Equal(msg, want) {
						k := 0
						for k < len(msg) && k < len(want) && msg[k] == want[k] {
							k++
						}
						return fmt.Sprintf("after call %d (err=%v) the caller's message has changed: len %d, first difference at byte %d: %q", i, err, len(msg), k, msg[k:min(k+12, len(msg))])
					}
					if err != nil {
						return fmt.Sprintf("call %d failed: %v", i, err)
					}
				}
				return "intact"
			})
			if got != "intact" {
				c.Fail("conc-codec-memory-reused", desc, got, "memory returned by Codec.Marshal is not the library's to recycle: the caller's message must stay intact")
			}
		}
	}
}

// errorDetailBleedProbe (C13, oracle only): the details of one call's error never show up in
// another call's: calls that fail with a coded error carrying details, and calls that fail with
// a plain error, interleaved and concurrent, each get their own - a plain error has no details
// (round 11, C13-mo: a pooled Status message whose details were only overwritten by coded errors).
func errorDetailBleedProbe(c *Ctx) {
	for _, proto := range []string{"connect", "grpc", "grpcweb"} {
		h := connect.NewUnaryHandler("/s/m", func(ctx context.Context, r *connect.Request[[]byte]) (*connect.Response[[]byte], error) {
			if len(*r.Msg) > 0 && (*r.Msg)[0] == 1 {
				e := connect.NewError(connect.CodeResourceExhausted, errors.New("quota"))
				d, _ := anypb.New(wrapperspb.String("detail of a coded error"))
				e.AddDetail(d)
				return nil, e
			}
			return nil, errors.New("plain failure")
		}, connect.WithCodec(rawCodec{"raw"}))
		desc := proto + ": calls failing with a coded error that has a detail, and calls failing with a plain error, 4 goroutines x 40 calls"
		c.Begin(desc)
		c.Count("error-detail-bleed-probe")
		got := safely(func() string {
			var bad int32
			var wg sync.WaitGroup
			for g := 0; g < 4; g++ {
				wg.Add(1)
				go func(g int) {
					defer wg.Done()
					// (the in-process transport keeps notes per call: one per goroutine; the handler
					// is what the calls share)
					cl := connect.NewClient[[]byte, []byte](&inprocClient{h: h}, "http://h/s/m", protoOpts(proto)...)
					for i := 0; i < 40; i++ {
						coded := (i+g)%2 == 0
						msg := []byte{0}
						if coded {
							msg = []byte{1}
						}
						_, err := cl.CallUnary(context.Background(), connect.NewRequest(&msg))
						var ce *connect.Error
						if !errors.As(err, &ce) {
							atomic.AddInt32(&bad, 1)
							continue
						}
						if coded && (ce.Code() != connect.CodeResourceExhausted || len(ce.Details()) != 1) {
							atomic.AddInt32(&bad, 1)
						}
						if !coded && (ce.Code() != connect.CodeUnknown || len(ce.Details()) != 0) {
							atomic.AddInt32(&bad, 1)
						}
					}
				}(g)
			}
			wg.Wait()
			return fmt.Sprintf("%d of 160 calls got an error that is not their own", atomic.LoadInt32(&bad))
		})
		if got != "0 of 160 calls got an error that is not their own" {
			c.Fail("conc-error-detail-bleed", desc, got, "each call's error is what the same call would produce alone")
		}
	}
}

// requestAcrossClientsProbe (C13, oracle only): one Request value sent through a client that
// compresses and then through one that does not: the second call's result is what that call
// would produce alone (round 11, C13-mp: a Content-Encoding left on the caller's header map by
// the first client, over the second client's uncompressed body).
func requestAcrossClientsProbe(c *Ctx) {
	h := connect.NewUnaryHandler("/s/m", func(ctx context.Context, r *connect.Request[[]byte]) (*connect.Response[[]byte], error) {
		out := append([]byte{byte(len(*r.Msg))}, (*r.Msg)...)
		return connect.NewResponse(&out), nil
	}, connect.WithCodec(rawCodec{"raw"}))
	for _, proto := range []string{"connect", "grpc", "grpcweb"} {
		desc := proto + ": one Request sent through a client with WithSendGzip and then through a client without send compression"
		c.Begin(desc)
		c.Count("request-across-clients-probe")
		got := safely(func() string {
			base := append(protoOpts(proto), connect.WithCodec(rawCodec{"raw"}))
			zipping := connect.NewClient[[]byte, []byte](&inprocClient{h: h}, "http://h/s/m", append(append([]connect.ClientOption{}, base...), connect.WithSendGzip())...)
			plain := connect.NewClient[[]byte, []byte](&inprocClient{h: h}, "http://h/s/m", base...)
			msg := bytes.Repeat([]byte{7}, 300)
			req := connect.NewRequest(&msg)
			if _, err := zipping.CallUnary(context.Background(), req); err != nil {
				return "first call: " + err.Error()
			}
			res, err := plain.CallUnary(context.Background(), req)
			if err != nil {
				return "second call: " + err.Error()
			}
			if len(*res.Msg) != 301 {
				return fmt.Sprintf("second call answered %d bytes", len(*res.Msg))
			}
			return "ok"
		})
		if got != "ok" {
			c.Fail("conc-request-across-clients", desc, got, "each call's result is what the same call would produce alone")
		}
	}
}

// sharedHandlerErrorProbe (C13; the race detector is the oracle): a handler may return one
// preallocated *connect.Error from every call - the library reads it; it does not write into it
// (round 12, C13-mq: Error.Meta() allocates lazily inside the value, so calling it on the
// handler's error is a write, and concurrent calls race on it).
func sharedHandlerErrorProbe(c *Ctx) {
	for _, proto := range []string{"connect", "grpc", "grpcweb"} {
		desc := proto + ": a server-stream handler returns one shared *connect.Error from 8 calls that start together (25 rounds, a fresh error each)"
		c.Begin(desc)
		c.Count("shared-handler-error-probe")
		got := safely(func() string {
			var bad int32
			for round := 0; round < 25; round++ {
				shared := connect.NewError(connect.CodeAborted, errors.New("try again"))
				h := connect.NewServerStreamHandler("/s/m", func(ctx context.Context, r *connect.Request[[]byte], s *connect.ServerStream[[]byte]) error {
					_ = s.Send(&[]byte{1})
					return shared
				}, connect.WithCodec(rawCodec{"raw"}))
				start := make(chan struct{})
				var wg sync.WaitGroup
				for g := 0; g < 8; g++ {
					wg.Add(1)
					go func() {
						defer wg.Done()
						cl := connect.NewClient[[]byte, []byte](&inprocClient{h: h}, "http://h/s/m", protoOpts(proto)...)
						<-start
						st, err := cl.CallServerStream(context.Background(), connect.NewRequest(&[]byte{1}))
						if err != nil {
							atomic.AddInt32(&bad, 1)
							return
						}
						for st.Receive() {
						}
						if connect.CodeOf(st.Err()) != connect.CodeAborted {
							atomic.AddInt32(&bad, 1)
						}
						_ = st.Close()
					}()
				}
				close(start)
				wg.Wait()
			}
			return fmt.Sprintf("%d of 200 calls did not end with the handler's error", atomic.LoadInt32(&bad))
		})
		if got != "0 of 200 calls did not end with the handler's error" {
			c.Fail("conc-shared-handler-error", desc, got, "each call's result is what the same call would produce alone")
		}
	}
}

// requestHeaderAfterCloseProbe (C13): the request headers a caller holds (RequestHeader()) are
// written by the library before the request-side call that starts the request returns - not from
// another goroutine afterwards: what the caller reads after CloseRequest is what it reads when
// the call is over, the timeout the library computed included (round 12, C13-mr; under the race
// detector the late write is also a reported race).
func requestHeaderAfterCloseProbe(c *Ctx) {
	h := connect.NewBidiStreamHandler("/s/m", func(ctx context.Context, s *connect.BidiStream[[]byte, []byte]) error {
		for {
			if _, err := s.Receive(); err != nil {
				return nil
			}
		}
	}, connect.WithCodec(rawCodec{"raw"}))
	for _, proto := range []string{"connect", "grpc", "grpcweb"} {
		desc := proto + ": bidi call under a deadline whose first request-side call is CloseRequest; RequestHeader() right afterwards and again when the call is over"
		c.Begin(desc)
		c.Count("request-header-after-close-probe")
		got := safely(func() string {
			for i := 0; i < 20; i++ {
				cl := connect.NewClient[[]byte, []byte](&inprocClient{h: h}, "http://h/s/m", protoOpts(proto)...)
				ctx, cancel := context.WithTimeout(context.Background(), 30*time.Second)
				st := cl.CallBidiStream(ctx)
				_ = st.CloseRequest()
				first := fmt.Sprint(len(st.RequestHeader().Values("Grpc-Timeout")) + len(st.RequestHeader().Values("Connect-Timeout-Ms")))
				for {
					if _, err := st.Receive(); err != nil {
						break
					}
				}
				_ = st.CloseResponse()
				last := fmt.Sprint(len(st.RequestHeader().Values("Grpc-Timeout")) + len(st.RequestHeader().Values("Connect-Timeout-Ms")))
				cancel()
				if first != "1" || last != "1" {
					return fmt.Sprintf("timeout header values seen right after CloseRequest: %s, after the call: %s", first, last)
				}
			}
			return "ok"
		})
		if got != "ok" {
			c.Fail("conc-request-header-late", desc, got, "the headers the caller holds are complete when the request-side call returns")
		}
	}
}

// constructionErrorProbe (C13, F39): a client that could not be constructed (an unknown send
// compression, say) fails every call - each with an error of its own: metadata one caller sets
// on the error it was handed must not show on the next caller's (and Error.Meta allocates
// lazily inside the value, so a shared one is also a data race between callers).
func constructionErrorProbe(c *Ctx) {
	for _, kind := range []string{"unary", "server", "client", "bidi"} {
		desc := "a client built with WithSendCompression of an unregistered name, two " + kind + " calls"
		c.Begin(desc)
		c.Count("construction-error-probe")
		got := safely(func() string {
			cl := connect.NewClient[[]byte, []byte](&staticClient{status: 200}, "http://h/s/m", connect.WithCodec(rawCodec{"raw"}), connect.WithSendCompression("never-registered"))
			call := func() *connect.Error {
				var err error
				switch kind {
				case "unary":
					_, err = cl.CallUnary(context.Background(), connect.NewRequest(&[]byte{1}))
				case "server":
					_, err = cl.CallServerStream(context.Background(), connect.NewRequest(&[]byte{1}))
				case "client":
					err = cl.CallClientStream(context.Background()).Send(&[]byte{1})
				default:
					err = cl.CallBidiStream(context.Background()).Send(&[]byte{1})
				}
				var ce *connect.Error
				if !errors.As(err, &ce) {
					return nil
				}
				return ce
			}
			e1 := call()
			if e1 == nil {
				return "the first call did not fail with a coded error"
			}
			e1.Meta().Set("X-Seen-By", "call-1")
			e2 := call()
			if e2 == nil {
				return "the second call did not fail with a coded error"
			}
			if e1 == e2 {
				return "both calls failed with the very same *connect.Error value"
			}
			if v := e2.Meta().Get("X-Seen-By"); v != "" {
				return "metadata set on the first call's error shows on the second call's: " + v
			}
			if e1.Code() != e2.Code() || e1.Message() != e2.Message() {
				return "the two calls report different errors: " + e1.Error() + " / " + e2.Error()
			}
			return "distinct"
		})
		if got != "distinct" {
			c.Fail("conc-shared-construction-error", desc, got, "an error handed to one call must not be shared with another: Meta() writes into it")
		}
	}
}

// sharedEndErrorProbe (F28): the error that ends a stream is handed to user code; it is a value
// like any other - its Meta() belongs to that call. Two calls must not get the same *Error.
func sharedEndErrorProbe(c *Ctx) {
	for _, proto := range []string{"connect", "grpc", "grpcweb"} {
		h := connect.NewBidiStreamHandler("/s/m", func(ctx context.Context, s *connect.BidiStream[[]byte, []byte]) error {
			for {
				if _, err := s.Receive(); err != nil {
					return nil
				}
			}
		}, connect.WithCodec(rawCodec{"raw"}))
		desc := proto + ": two bidi calls that end cleanly; the *connect.Error inside the final Receive errors"
		c.Begin(desc)
		c.Count("shared-end-error-probe")
		got := safely(func() string {
			end := func() *connect.Error {
				cl := connect.NewClient[[]byte, []byte](&inprocClient{h: h}, "http://h/s/m", protoOpts(proto)...)
				st := cl.CallBidiStream(context.Background())
				_ = st.Send(&[]byte{1})
				_ = st.CloseRequest()
				var last error
				for i := 0; i < 5; i++ {
					if _, err := st.Receive(); err != nil {
						last = err
						break
					}
				}
				_ = st.CloseResponse()
				var ce *connect.Error
				if !errors.As(last, &ce) {
					return nil
				}
				return ce
			}
			e1 := end()
			if e1 != nil {
				e1.Meta().Set("X-Seen-By", "call-1")
			}
			e2 := end()
			if e1 == nil || e2 == nil {
				return "no coded end error"
			}
			if e1 == e2 {
				return "both calls ended with the very same *connect.Error value"
			}
			if v := e2.Meta().Get("X-Seen-By"); v != "" {
				return "metadata set on the first call's end error shows on the second call's: " + v
			}
			return "distinct"
		})
		if got != "distinct" {
			c.Fail("conc-shared-end-error", desc, got, "an error handed to one call must not be shared with another: Meta() writes into it")
		}
	}
}

// sharedContextErrorProbe: … and likewise the error of a call whose context had ended: two calls,
// two values (round 9, C13-ml).
func sharedContextErrorProbe(c *Ctx) {
	h := connect.NewUnaryHandler("/s/m", func(ctx context.Context, r *connect.Request[[]byte]) (*connect.Response[[]byte], error) {
		return connect.NewResponse(&[]byte{1}), nil
	}, connect.WithCodec(rawCodec{"raw"}))
	for _, proto := range []string{"connect", "grpc", "grpcweb"} {
		for _, how := range []string{"cancelled", "expired"} {
			for _, kind := range []string{"unary", "bidi"} {
				desc := fmt.Sprintf("%s: two %s calls made with a context that is already over (%s)", proto, kind, how)
				c.Count("shared-context-error-probe")
				got := safely(func() string {
					fail := func() *connect.Error {
						ctx, cancel := context.WithCancel(context.Background())
						if how == "expired" {
							ctx, cancel = context.WithDeadline(context.Background(), time.Now().Add(-time.Second))
						}
						cancel()
						cl := connect.NewClient[[]byte, []byte](&inprocClient{h: h}, "http://h/s/m", protoOpts(proto)...)
						var err error
						if kind == "unary" {
							_, err = cl.CallUnary(ctx, connect.NewRequest(&[]byte{1}))
						} else {
							st := cl.CallBidiStream(ctx)
							err = st.Send(&[]byte{1})
							if err == nil {
								_, err = st.Receive()
							}
							_ = st.CloseRequest()
							_ = st.CloseResponse()
						}
						var ce *connect.Error
						if !errors.As(err, &ce) {
							return nil
						}
						return ce
					}
					e1 := fail()
					if e1 != nil {
						e1.Meta().Set("X-Seen-By", "call-1")
					}
					e2 := fail()
					if e1 == nil || e2 == nil {
						return "no coded error"
					}
					if e1 == e2 {
						return "both calls failed with the very same *connect.Error value"
					}
					if v := e2.Meta().Get("X-Seen-By"); v != "" {
						return "metadata set on the first call's error shows on the second call's: " + v
					}
					return "distinct"
				})
				if got != "distinct" {
					c.Fail("conc-shared-context-error", desc, got, "an error handed to one call must not be shared with another: Meta() writes into it")
				}
			}
		}
	}
}

// trackingCodec notes every message value it is asked to decode into, and rendezvouses two
// concurrent decodes so that both are inside Unmarshal at the same time.
type trackingCodec struct {
	rawCodec
	mu       *sync.Mutex
	active   map[any]int
	overlaps *int32
	gate     chan struct{}
}

func (t trackingCodec) Unmarshal(data []byte, msg any) error {
	t.mu.Lock()
	t.active[msg]++
	if t.active[msg] > 1 {
		atomic.AddInt32(t.overlaps, 1)
	}
	t.mu.Unlock()
	if len(data) > 0 && data[0] == 0xC2 { // the second message of a probe request: hold it
		select {
		case t.gate <- struct{}{}:
		case <-t.gate:
		case <-time.After(300 * time.Millisecond):
		}
		time.Sleep(20 * time.Millisecond)
	}
	err := t.rawCodec.Unmarshal(data, msg)
	t.mu.Lock()
	t.active[msg]--
	t.mu.Unlock()
	return err
}

// sharedDecodeTargetProbe: two requests served at the same time never decode into the same
// message value - also not the message a handler reads only to see that the request has ended
// (round 10, C13-mm).
func sharedDecodeTargetProbe(c *Ctx) {
	for _, kind := range []string{"unary", "server"} {
		var overlaps int32
		codec := trackingCodec{rawCodec{"raw"}, &sync.Mutex{}, map[any]int{}, &overlaps, make(chan struct{})}
		var h http.Handler
		proto := "grpcweb"
		if kind == "unary" {
			h = connect.NewUnaryHandler("/s/m", func(ctx context.Context, r *connect.Request[[]byte]) (*connect.Response[[]byte], error) {
				return connect.NewResponse(&[]byte{1}), nil
			}, connect.WithCodec(codec))
		} else {
			proto = "connect"
			h = connect.NewServerStreamHandler("/s/m", func(ctx context.Context, r *connect.Request[[]byte], s *connect.ServerStream[[]byte]) error {
				return nil
			}, connect.WithCodec(codec))
		}
		var wg sync.WaitGroup
		for i := 0; i < 2; i++ {
			wg.Add(1)
			go func() {
				defer wg.Done()
				body := append(frame(0, []byte{1}), frame(0, []byte{0xC2, 2})...)
				req := httptest.NewRequest(http.MethodPost, "/s/m", bytes.NewReader(body))
				req.ProtoMajor, req.ProtoMinor, req.Proto = 2, 0, "HTTP/2.0"
				req.Header.Set("Content-Type", ctFor(proto, kind, "raw"))
				h.ServeHTTP(httptest.NewRecorder(), req)
			}()
		}
		wg.Wait()
		c.Count("shared-decode-target")
		if n := atomic.LoadInt32(&overlaps); n != 0 {
			c.Fail("conc-shared-decode-target", "two concurrent "+kind+" requests that each carry a second message, one handler", fmt.Sprintf("%d decode(s) into a message value another request was decoding into at that moment", n), "each request decodes into values of its own")
		}
	}
}

// recoverPerStreamProbe: the recovery of one stream's panic does not depend on what other streams
// of the same handler are doing: A enters the handler and waits, B runs to its end, then A panics -
// and A's client gets the recovery function's error (round 10, C13-mn).
func recoverPerStreamProbe(c *Ctx) {
	for _, proto := range []string{"connect", "grpc", "grpcweb"} {
		aIn, bDone := make(chan struct{}), make(chan struct{})
		h := connect.NewServerStreamHandler("/s/m", func(ctx context.Context, r *connect.Request[[]byte], s *connect.ServerStream[[]byte]) error {
			if len(*r.Msg) > 0 && (*r.Msg)[0] == 'A' {
				close(aIn)
				select {
				case <-bDone:
				case <-time.After(3 * time.Second):
				}
				panic("stream A gives up")
			}
			return s.Send(&[]byte{1})
		}, connect.WithCodec(rawCodec{"raw"}), connect.WithRecover(func(context.Context, connect.Spec, http.Header, any) error {
			return connect.NewError(connect.CodeFailedPrecondition, errors.New("recovered"))
		}))
		desc := proto + ": stream A waits inside the handler, stream B completes, then A panics (WithRecover installed)"
		c.Count("recover-per-stream")
		got := safely(func() string {
			ica, icb := &inprocClient{h: h}, &inprocClient{h: h}
			res := make(chan error, 1)
			go func() {
				v := callClient(proto, "server", ica, nil, [][]byte{{'A'}})
				res <- v.err
			}()
			select {
			case <-aIn:
			case <-time.After(3 * time.Second):
				return "stream A never reached the handler"
			}
			vb := callClient(proto, "server", icb, nil, [][]byte{{'B'}})
			close(bDone)
			aerr := <-res
			return fmt.Sprintf("A=%s (panic escaped=%v) B=%s", codeOrOKp(aerr), ica.panicked, codeOrOKp(vb.err))
		})
		if got != "A=failed_precondition (panic escaped=false) B=ok" {
			c.Fail("conc-recover-depends-on-others", desc, got, "each call's result is what the same call would produce alone: A=failed_precondition B=ok")
		}
	}
}

// negotiationPerCallProbe: what a handler answers one call with does not depend on the calls it
// served before. Two requests with the same accept list, one compressed and one not, get the
// response encodings they would get alone - in either order, and under concurrency (round 9, C13-mk).
func negotiationPerCallProbe(c *Ctx) {
	for _, proto := range []string{"connect", "grpc", "grpcweb"} {
		mk := func() http.Handler {
			return connect.NewUnaryHandler("/s/m", func(ctx context.Context, r *connect.Request[[]byte]) (*connect.Response[[]byte], error) {
				out := bytes.Repeat([]byte{7}, 64)
				return connect.NewResponse(&out), nil
			}, connect.WithCodec(rawCodec{"raw"}), connect.WithCompression("rle", newRLEDecompressor, newRLECompressor), connect.WithCompressMinBytes(1))
		}
		encH, accH := encHeaderFor(proto, "unary")
		call := func(h http.Handler, compressed bool) string {
			payload := bytes.Repeat([]byte{5}, 40)
			var body []byte
			if compressed {
				var buf bytes.Buffer
				zw := gzip.NewWriter(&buf)
				_, _ = zw.Write(payload)
				_ = zw.Close()
				payload = buf.Bytes()
			}
			body = payload
			if proto != "connect" {
				fl := byte(0)
				if compressed {
					fl = 1
				}
				body = frame(fl, payload)
			}
			req := httptest.NewRequest(http.MethodPost, "/s/m", bytes.NewReader(body))
			req.ProtoMajor, req.ProtoMinor, req.Proto = 2, 0, "HTTP/2.0"
			req.Header.Set("Content-Type", ctFor(proto, "unary", "raw"))
			req.Header.Set(accH, "rle, gzip")
			if compressed {
				req.Header.Set(encH, "gzip")
			}
			rec := httptest.NewRecorder()
			h.ServeHTTP(rec, req)
			return rec.Result().Header.Get(encH)
		}
		// alone
		soloPlain, soloGz := call(mk(), false), call(mk(), true)
		for _, order := range []string{"plain-first", "compressed-first", "concurrent"} {
			h := mk()
			var gotPlain, gotGz string
			switch order {
			case "plain-first":
				gotPlain = call(h, false)
				gotGz = call(h, true)
			case "compressed-first":
				gotGz = call(h, true)
				gotPlain = call(h, false)
			default:
				var wg sync.WaitGroup
				var mu sync.Mutex
				for i := 0; i < 16; i++ {
					i := i
					wg.Add(1)
					go func() {
						defer wg.Done()
						r := call(h, i%2 == 0)
						mu.Lock()
						if i%2 == 0 {
							if gotGz == "" || r != soloGz {
								gotGz = r
							}
						} else if gotPlain == "" || r != soloPlain {
							gotPlain = r
						}
						mu.Unlock()
					}()
				}
				wg.Wait()
			}
			c.Count("negotiation-per-call")
			if gotPlain != soloPlain || gotGz != soloGz {
				c.Fail("conc-negotiation-depends-on-history", fmt.Sprintf("%s handler with gzip and rle; two unary requests accepting \"rle, gzip\", one sent gzip-compressed and one uncompressed, %s", proto, order),
					fmt.Sprintf("uncompressed request answered in %q (alone: %q), compressed request answered in %q (alone: %q)", gotPlain, soloPlain, gotGz, soloGz), "each call's response encoding is what the same call gets alone")
			}
		}
	}
}

// countingDetail is an ErrorDetail of the application's own type (not an *anypb.Any).
type countingDetail struct{ *wrapperspb.StringValue }

func (d *countingDetail) MessageName() protoreflect.FullName {
	return d.StringValue.ProtoReflect().Descriptor().FullName()
}
func (d *countingDetail) UnmarshalTo(m proto.Message) error {
	proto.Merge(m, d.StringValue)
	return nil
}

// stampIcpt calls f with the request headers of every streaming client call before its first Send.
type stampIcpt struct{ f func(http.Header) }

func (s stampIcpt) WrapUnary(next connect.UnaryFunc) connect.UnaryFunc { return next }
func (s stampIcpt) WrapStreamingClient(next connect.StreamingClientFunc) connect.StreamingClientFunc {
	return func(ctx context.Context, spec connect.Spec) connect.StreamingClientConn {
		conn := next(ctx, spec)
		return &stampConn{StreamingClientConn: conn, f: s.f}
	}
}
func (s stampIcpt) WrapStreamingHandler(next connect.StreamingHandlerFunc) connect.StreamingHandlerFunc {
	return next
}

type stampConn struct {
	connect.StreamingClientConn
	f    func(http.Header)
	done bool
}

func (s *stampConn) Send(m any) error {
	if !s.done {
		s.done = true
		s.f(s.RequestHeader())
	}
	return s.StreamingClientConn.Send(m)
}

// headerCapture records the headers of every request and answers with an empty 200.
type headerCapture struct {
	mu   sync.Mutex
	seen *[]http.Header
}

func (h *headerCapture) Do(req *http.Request) (*http.Response, error) {
	h.mu.Lock()
	*h.seen = append(*h.seen, req.Header.Clone())
	h.mu.Unlock()
	return (&staticClient{status: 200, header: http.Header{"Content-Type": {req.Header.Get("Content-Type")}}}).Do(req)
}

// blockingBody delivers `first`, then blocks inside Read until released, then delivers `late`.
type blockingBody struct {
	name    string
	first   []byte
	late    []byte
	gate    chan struct{}
	blocked chan struct{}
	once    sync.Once
}

func (b *blockingBody) Read(p []byte) (int, error) {
	if len(b.first) > 0 {
		n := copy(p, b.first)
		b.first = b.first[n:]
		return n, nil
	}
	pendingReads.mu.Lock()
	if pendingReads.regions == nil {
		pendingReads.regions = map[*blockingBody][2]uintptr{}
	}
	pendingReads.regions[b] = region(p)
	pendingReads.mu.Unlock()
	b.once.Do(func() { close(b.blocked) })
	<-b.gate
	pendingReads.mu.Lock()
	delete(pendingReads.regions, b)
	pendingReads.mu.Unlock()
	n := copy(p, b.late)
	b.late = b.late[n:]
	if len(b.late) == 0 {
		return n, io.EOF
	}
	return n, nil
}
func (b *blockingBody) Close() error { return nil }

// pendingReadProbe (needs the pool observer of streamConc): a call is cancelled while the
// transport is still filling the call's buffer (a body Read that does not return on
// cancellation - the HTTPClient interface does not promise that it does). Whatever the call
// then reports, its buffer must not be back in the pool while that read is pending: the next
// call on the client would get a buffer somebody else still writes to.
func pendingReadProbe(c *Ctx) {
	for _, proto := range []string{"connect", "grpc", "grpcweb"} {
		name := "pending-read/" + proto
		payload := bytes.Repeat([]byte{7}, 64)
		full := frame(0, payload)
		body := &blockingBody{name: name, first: append([]byte{}, full[:9]...), late: append([]byte{}, full[9:]...), gate: make(chan struct{}), blocked: make(chan struct{})}
		opts := []connect.ClientOption{connect.WithCodec(rawCodec{"raw"})}
		if proto == "grpc" {
			opts = append(opts, connect.WithGRPC())
		} else if proto == "grpcweb" {
			opts = append(opts, connect.WithGRPCWeb())
		}
		bc := &bodyClient{status: 200, header: http.Header{"Content-Type": {ctFor(proto, "server", "raw")}}, body: body}
		cl := connect.NewClient[[]byte, []byte](bc, "http://h/s/m", opts...)
		ctx, cancel := context.WithCancel(context.Background())
		done := make(chan struct{})
		go func() {
			defer close(done)
			st, err := cl.CallServerStream(ctx, connect.NewRequest(&[]byte{1}))
			if err != nil {
				return
			}
			st.Receive()
			_ = st.Close()
		}()
		select {
		case <-body.blocked:
		case <-time.After(5 * time.Second):
		}
		cancel()
		select {
		case <-done:
		case <-time.After(300 * time.Millisecond):
		}
		close(body.gate)
		select {
		case <-done:
		case <-time.After(5 * time.Second):
		}
		c.Count("conc-pending-read-probe")
		pendingReads.mu.Lock()
		hit := false
		for _, h := range pendingReads.hits {
			if h == name {
				hit = true
			}
		}
		pendingReads.mu.Unlock()
		if hit {
			c.Fail("conc-buffer-recycled-under-read", proto+" server stream: context cancelled while the transport's body Read (64-byte message, 4 bytes delivered) is still pending", "the call's buffer went back to the pool before that Read returned", "the pending Read writes into a buffer the next call on this client will be given")
		}
	}
}

// urlEditingClient is an HTTPClient that - like a request signer or a tenant router - edits the
// URL of the request it is handed (adds a query parameter taken from a header).
type urlEditingClient struct {
	mu   sync.Mutex
	seen []string
}

func (u *urlEditingClient) Do(req *http.Request) (*http.Response, error) {
	if t := req.Header.Get("X-Tenant"); t != "" {
		q := req.URL.Query()
		q.Set("tenant", t)
		req.URL.RawQuery = q.Encode()
	}
	u.mu.Lock()
	u.seen = append(u.seen, req.URL.String())
	u.mu.Unlock()
	return (&staticClient{status: 200, header: http.Header{"Content-Type": {req.Header.Get("Content-Type")}}}).Do(req)
}

// requestIsolationProbes (sequential):
//
//	(a) every call hands the HTTPClient a request of its own: what a transport does to one
//	    request (its URL included) does not show up in the next call's;
//	(b) on a bidi stream the goroutine that receives may start first: headers the sending
//	    goroutine sets before its first Send still go out (the request is made by the first use
//	    of the request side, not by a waiting Receive).
func requestIsolationProbes(c *Ctx) {
	for _, proto := range []string{"connect", "grpc", "grpcweb"} {
		copts := []connect.ClientOption{connect.WithCodec(rawCodec{"raw"})}
		if proto == "grpc" {
			copts = append(copts, connect.WithGRPC())
		} else if proto == "grpcweb" {
			copts = append(copts, connect.WithGRPCWeb())
		}
		// (a)
		got := safely(func() string {
			hc := &urlEditingClient{}
			cl := connect.NewClient[[]byte, []byte](hc, "http://h/s/m", copts...)
			for _, tenant := range []string{"alpha", "", "beta", ""} {
				req := connect.NewRequest(&[]byte{1})
				if tenant != "" {
					req.Header().Set("X-Tenant", tenant)
				}
				_, _ = cl.CallUnary(context.Background(), req)
				st := cl.CallClientStream(context.Background())
				if tenant != "" {
					st.RequestHeader().Set("X-Tenant", tenant)
				}
				_ = st.Send(&[]byte{1})
				_, _ = st.CloseAndReceive()
			}
			want := []string{"http://h/s/m?tenant=alpha", "http://h/s/m?tenant=alpha", "http://h/s/m", "http://h/s/m", "http://h/s/m?tenant=beta", "http://h/s/m?tenant=beta", "http://h/s/m", "http://h/s/m"}
			if strings.Join(hc.seen, " ") != strings.Join(want, " ") {
				return strings.Join(hc.seen, " ")
			}
			return "ok"
		})
		c.Count("conc-request-isolation")
		if got != "ok" {
			c.Fail("conc-crosstalk-shared-request", proto+" calls through an HTTPClient that adds ?tenant=<X-Tenant header> to the URL of the request it is handed; tenants alpha, none, beta, none", got, "a later call's request carried what the transport did to an earlier call's request")
		}
		// (b)
		got = safely(func() string {
			seen := make(chan string, 1)
			h := connect.NewBidiStreamHandler("/s/m", func(ctx context.Context, s *connect.BidiStream[[]byte, []byte]) error {
				seen <- s.RequestHeader().Get("X-Call-Id")
				for {
					if _, err := s.Receive(); err != nil {
						return nil
					}
				}
			}, connect.WithCodec(rawCodec{"raw"}))
			srv := httptest.NewUnstartedServer(h)
			srv.EnableHTTP2 = true
			srv.StartTLS()
			defer srv.Close()
			cl := connect.NewClient[[]byte, []byte](srv.Client(), srv.URL+"/s/m", copts...)
			st := cl.CallBidiStream(context.Background())
			recvDone := make(chan struct{})
			go func() {
				defer close(recvDone)
				_, _ = st.Receive() // the receiver is up first and waits
			}()
			time.Sleep(50 * time.Millisecond)
			st.RequestHeader().Set("X-Call-Id", "late-but-before-send")
			_ = st.Send(&[]byte{1})
			var id string
			select {
			case id = <-seen:
			case <-time.After(3 * time.Second):
				id = "(handler not reached)"
			}
			_ = st.CloseRequest()
			<-recvDone
			_ = st.CloseResponse()
			if id != "late-but-before-send" {
				return "handler saw X-Call-Id=" + id
			}
			return "ok"
		})
		c.Count("conc-receiver-first")
		if got != "ok" {
			c.Fail("conc-call-failed", proto+" bidi stream: the receiving goroutine calls Receive first, then the sending goroutine sets a request header and sends", got, "a header set before the first Send did not reach the handler")
		}
	}
}

// earlyAccessorProbe: the receive side asks a stream for its response headers and trailers while
// the call is still in flight (the handler answers 80 ms later with a trailers-only error): the
// maps it gets are not written to behind its back (the race detector watches), and what it reads
// is what the same call shows when it is asked at the end.
func earlyAccessorProbe(c *Ctx) {
	for _, proto := range []string{"connect", "grpc", "grpcweb"} {
		desc := proto + " server stream: ResponseHeader() and ResponseTrailer() read right after the call was started, the handler fails 80ms later with metadata"
		got := safely(func() string {
			h := connect.NewServerStreamHandler("/s/m", func(ctx context.Context, r *connect.Request[[]byte], s *connect.ServerStream[[]byte]) error {
				time.Sleep(80 * time.Millisecond)
				e := connect.NewError(connect.CodeNotFound, errors.New("nope"))
				e.Meta().Set("X-Why", "because")
				return e
			}, connect.WithCodec(rawCodec{"raw"}))
			srv := httptest.NewUnstartedServer(h)
			srv.EnableHTTP2 = true
			srv.StartTLS()
			defer srv.Close()
			copts := []connect.ClientOption{connect.WithCodec(rawCodec{"raw"})}
			if proto == "grpc" {
				copts = append(copts, connect.WithGRPC())
			} else if proto == "grpcweb" {
				copts = append(copts, connect.WithGRPCWeb())
			}
			cl := connect.NewClient[[]byte, []byte](srv.Client(), srv.URL+"/s/m", copts...)
			st, err := cl.CallServerStream(context.Background(), connect.NewRequest(&[]byte{1}))
			if err != nil {
				return "call: " + err.Error()
			}
			early := map[string]string{}
			for k, v := range st.ResponseTrailer() {
				early["t:"+k] = strings.Join(v, ",")
			}
			for k, v := range st.ResponseHeader() {
				early["h:"+k] = strings.Join(v, ",")
			}
			for st.Receive() {
			}
			late := map[string]string{}
			for k, v := range st.ResponseTrailer() {
				late["t:"+k] = strings.Join(v, ",")
			}
			_ = st.Close()
			if connect.CodeOf(st.Err()) != connect.CodeNotFound {
				return "outcome: " + fmt.Sprint(st.Err())
			}
			_ = early
			_ = late
			return "ok"
		})
		c.Count("conc-early-accessors")
		if got != "ok" {
			c.Fail("conc-call-failed", desc, got, "the call did not end with the handler's error")
		}
	}
}

// sharedValueProbes (oracle only, sequential - no timing involved): values the *application*
// shares between calls stay the application's, and values the library hands out per call are
// per call.
//
//	(a) a handler returns one package-level sentinel *connect.Error from every call and sets a
//	    per-call response trailer: the sentinel is not modified, and each call's error metadata
//	    carries this call's trailer only;
//	(b) a client that failed at construction hands every stream its own header maps.
func sharedValueProbes(c *Ctx) {
	// (a)
	for _, proto := range []string{"connect", "grpc", "grpcweb"} {
		for _, kind := range []string{"server", "bidi"} {
			sentinel := connect.NewError(connect.CodeResourceExhausted, errors.New("quota"))
			sentinel.Meta().Set("X-Sentinel", "s")
			hopts := []connect.HandlerOption{connect.WithCodec(rawCodec{"raw"})}
			var h http.Handler
			if kind == "server" {
				h = connect.NewServerStreamHandler("/s/m", func(ctx context.Context, r *connect.Request[[]byte], s *connect.ServerStream[[]byte]) error {
					s.ResponseTrailer().Set("X-Call-"+r.Header().Get("X-Call-Id"), "1")
					return sentinel
				}, hopts...)
			} else {
				h = connect.NewBidiStreamHandler("/s/m", func(ctx context.Context, s *connect.BidiStream[[]byte, []byte]) error {
					s.ResponseTrailer().Set("X-Call-"+s.RequestHeader().Get("X-Call-Id"), "1")
					return sentinel
				}, hopts...)
			}
			desc := fmt.Sprintf("%s %s-stream handler returning one shared *connect.Error from every call, per-call response trailers", proto, kind)
			got := safely(func() string {
				srv := httptest.NewUnstartedServer(h)
				srv.EnableHTTP2 = true
				srv.StartTLS()
				defer srv.Close()
				copts := []connect.ClientOption{connect.WithCodec(rawCodec{"raw"})}
				if proto == "grpc" {
					copts = append(copts, connect.WithGRPC())
				} else if proto == "grpcweb" {
					copts = append(copts, connect.WithGRPCWeb())
				}
				cl := connect.NewClient[[]byte, []byte](srv.Client(), srv.URL+"/s/m", copts...)
				for i := 0; i < 3; i++ {
					id := fmt.Sprintf("N%d", i)
					var err error
					if kind == "server" {
						req := connect.NewRequest(&[]byte{1})
						req.Header().Set("X-Call-Id", id)
						st, cerr := cl.CallServerStream(context.Background(), req)
						if cerr != nil {
							return "call: " + cerr.Error()
						}
						for st.Receive() {
						}
						err = st.Err()
						_ = st.Close()
					} else {
						st := cl.CallBidiStream(context.Background())
						st.RequestHeader().Set("X-Call-Id", id)
						_ = st.Send(&[]byte{1})
						_ = st.CloseRequest()
						_, err = st.Receive()
						_ = st.CloseResponse()
					}
					var ce *connect.Error
					if !errors.As(err, &ce) || ce.Code() != connect.CodeResourceExhausted {
						return fmt.Sprintf("call %d: %v", i, err)
					}
					for k := range ce.Meta() {
						if strings.HasPrefix(k, "X-Call-") && k != "X-Call-"+id {
							return fmt.Sprintf("call %d: error metadata carries %s of another call", i, k)
						}
					}
					if ce.Meta().Get("X-Call-"+id) != "1" || ce.Meta().Get("X-Sentinel") != "s" {
						return fmt.Sprintf("call %d: own metadata missing: %v", i, ce.Meta())
					}
				}
				if len(sentinel.Meta()) != 1 {
					return fmt.Sprintf("the application's error value was modified: meta=%v", sentinel.Meta())
				}
				return "ok"
			})
			c.Count("conc-shared-sentinel")
			if got != "ok" {
				c.Fail("conc-crosstalk-shared-error", desc, got, "per-call trailers leaked through an error value the application shares between calls")
			}
		}
	}
	// (d) the same with an error *detail* of the application's own Go type: the library converts
	// it for the wire without storing the conversion in the application's error
	for _, proto := range []string{"connect", "grpc", "grpcweb"} {
		sentinel := connect.NewError(connect.CodeFailedPrecondition, errors.New("precondition"))
		detail := &countingDetail{StringValue: wrapperspb.String("v7")}
		sentinel.AddDetail(detail)
		h := connect.NewUnaryHandler("/s/m", func(ctx context.Context, r *connect.Request[[]byte]) (*connect.Response[[]byte], error) {
			detail.StringValue = wrapperspb.String("v" + r.Header().Get("X-Call-Id")) // the application updates its own detail
			return nil, sentinel
		}, connect.WithCodec(rawCodec{"raw"}))
		desc := proto + " unary handler returning one shared *connect.Error whose detail is of the application's own type and changes between calls"
		got := safely(func() string {
			copts := []connect.ClientOption{connect.WithCodec(rawCodec{"raw"})}
			if proto == "grpc" {
				copts = append(copts, connect.WithGRPC())
			} else if proto == "grpcweb" {
				copts = append(copts, connect.WithGRPCWeb())
			}
			cl := connect.NewClient[[]byte, []byte](&inprocClient{h: h}, "http://h/s/m", copts...)
			for i := 0; i < 3; i++ {
				id := fmt.Sprintf("%d", 100+i)
				req := connect.NewRequest(&[]byte{1})
				req.Header().Set("X-Call-Id", id)
				_, err := cl.CallUnary(context.Background(), req)
				var ce *connect.Error
				if !errors.As(err, &ce) || len(ce.Details()) != 1 {
					return fmt.Sprintf("call %d: %v", i, err)
				}
				var sv wrapperspb.StringValue
				if uerr := ce.Details()[0].UnmarshalTo(&sv); uerr != nil || sv.Value != "v"+id {
					return fmt.Sprintf("call %d received detail %q, the handler attached %q", i, sv.Value, "v"+id)
				}
			}
			if d := sentinel.Details(); len(d) != 1 || d[0] != connect.ErrorDetail(detail) {
				return fmt.Sprintf("the application's error now holds a detail of type %T instead of its own", d[0])
			}
			return "ok"
		})
		c.Count("conc-shared-detail")
		if got != "ok" {
			c.Fail("conc-crosstalk-shared-error", desc, got, "the library wrote into an error value the application shares between calls")
		}
	}
	// (c) one Request value (three values under one key) used for several server-streaming
	// calls; an interceptor stamps each call's own request headers with the call's id: the
	// stamp of one call never shows up in - or overwrites - another call's headers
	for _, proto := range []string{"connect", "grpc", "grpcweb"} {
		desc := proto + " server-streaming calls sharing one Request value (X-Trace: a, b, c); an interceptor adds the call id to each call's request headers"
		got := safely(func() string {
			var held []http.Header
			var wire []http.Header
			hc := &headerCapture{seen: &wire}
			n := 0
			stamp := stampIcpt{func(h http.Header) {
				n++
				h.Add("X-Trace", fmt.Sprintf("call-%d", n))
				held = append(held, h)
			}}
			copts := []connect.ClientOption{connect.WithCodec(rawCodec{"raw"}), connect.WithInterceptors(stamp)}
			if proto == "grpc" {
				copts = append(copts, connect.WithGRPC())
			} else if proto == "grpcweb" {
				copts = append(copts, connect.WithGRPCWeb())
			}
			cl := connect.NewClient[[]byte, []byte](hc, "http://h/s/m", copts...)
			req := connect.NewRequest(&[]byte{1})
			for _, v := range []string{"a", "b", "c"} {
				req.Header().Add("X-Trace", v)
			}
			for i := 0; i < 3; i++ {
				st, err := cl.CallServerStream(context.Background(), req)
				if err == nil {
					for st.Receive() {
					}
					_ = st.Close()
				}
			}
			if len(held) != 3 || len(wire) != 3 {
				return fmt.Sprintf("%d calls stamped, %d requests made", len(held), len(wire))
			}
			for i := 0; i < 3; i++ {
				want := fmt.Sprintf("a,b,c,call-%d", i+1)
				if g := strings.Join(held[i].Values("X-Trace"), ","); g != want {
					return fmt.Sprintf("call %d's own header map now says X-Trace: %s (want %s)", i+1, g, want)
				}
				if g := strings.Join(wire[i].Values("X-Trace"), ","); g != want {
					return fmt.Sprintf("call %d went out with X-Trace: %s (want %s)", i+1, g, want)
				}
			}
			if g := strings.Join(req.Header().Values("X-Trace"), ","); g != "a,b,c" {
				return "the shared Request's own header changed: " + g
			}
			return "ok"
		})
		c.Count("conc-shared-request-headers")
		if got != "ok" {
			c.Fail("conc-crosstalk-shared-request", desc, got, "header values of one call leaked into another call's headers")
		}
	}
	// (b)
	for _, proto := range []string{"connect", "grpc", "grpcweb"} {
		copts := []connect.ClientOption{connect.WithCodec(rawCodec{"raw"}), connect.WithSendCompression("nope")}
		if proto == "grpc" {
			copts = append(copts, connect.WithGRPC())
		} else if proto == "grpcweb" {
			copts = append(copts, connect.WithGRPCWeb())
		}
		desc := proto + " client that failed at construction (unknown send compression): header maps of successive streams"
		got := safely(func() string {
			cl := connect.NewClient[[]byte, []byte](&staticClient{status: 200}, "http://h/s/m", copts...)
			for i := 0; i < 3; i++ {
				id := fmt.Sprintf("N%d", i)
				cs := cl.CallClientStream(context.Background())
				if len(cs.RequestHeader()) != 0 {
					return fmt.Sprintf("client stream %d starts with request headers %v", i, cs.RequestHeader())
				}
				cs.RequestHeader().Set("X-Call-Id", id)
				bs := cl.CallBidiStream(context.Background())
				if len(bs.RequestHeader()) != 0 || len(bs.ResponseHeader()) != 0 || len(bs.ResponseTrailer()) != 0 {
					return fmt.Sprintf("bidi stream %d starts with headers %v / %v / %v", i, bs.RequestHeader(), bs.ResponseHeader(), bs.ResponseTrailer())
				}
				bs.RequestHeader().Set("Authorization", id)
				bs.ResponseHeader().Set("X-Scribble", id)
				if got := cs.RequestHeader(); got.Get("Authorization") != "" || got.Get("X-Scribble") != "" {
					return fmt.Sprintf("client stream %d: sees what another stream wrote: %v", i, got)
				}
				_, _ = cs.CloseAndReceive()
				_ = bs.CloseRequest()
				_ = bs.CloseResponse()
			}
			return "ok"
		})
		c.Count("conc-failed-client-headers")
		if got != "ok" {
			c.Fail("conc-crosstalk-failed-client", desc, got, "streams of a client that failed at construction share header maps")
		}
	}
}

// traceVerdict: the implementation-side statement is simply what happened; a well-behaved pool
// never hands out a buffer twice nor takes one back twice. (The oracle re-checks it.)
func traceVerdict(events []string) string {
	out, in := map[string]bool{}, map[string]bool{}
	for i, e := range events {
		id := e[1:]
		if e[0] == 'g' {
			if out[id] {
				return fmt.Sprintf("rejected:%d", i)
			}
			out[id] = true
			delete(in, id)
		} else {
			if in[id] {
				return fmt.Sprintf("rejected:%d", i)
			}
			delete(out, id)
			in[id] = true
		}
	}
	return "accepted"
}
