package main

import (
	"bytes"
	"context"
	"fmt"
	"go/ast"
	"go/parser"
	"go/token"
	"net/http"
	"net/http/httptest"
	"os"
	"os/exec"
	"path/filepath"
	"strconv"
	"strings"
	"time"

	connect "github.com/bufbuild/connect-go"
	"google.golang.org/protobuf/proto"
	"google.golang.org/protobuf/reflect/protodesc"
	"google.golang.org/protobuf/types/descriptorpb"
	"google.golang.org/protobuf/types/known/emptypb"
	"google.golang.org/protobuf/types/pluginpb"
)

// S-gen (C17): the real plugin binary (built from /repo by ./check) on generated descriptors.
//   gen pkg=HEX svc=HEX m=HEX go=HEX cs=0|1 ss=0|1  -> url= mux= proc= prefix= field= kind=

func init() { register("gen", "C17", streamGen) }

func repoDir() string {
	if d := os.Getenv("VERIF_REPO"); d != "" {
		return d
	}
	return "/repo"
}

func pluginPath() string {
	if p := os.Getenv("VERIF_PLUGIN"); p != "" {
		return p
	}
	return "/verif/.work/bin/protoc-gen-connect-go"
}

type genMethod struct {
	name   string
	cs, ss bool
	dep    bool
}
type genService struct {
	name    string
	methods []genMethod
	dep     bool
}
type genFile struct {
	pkg       string
	goPackage string
	services  []genService
	comments  bool
	localMsgs bool   // the RPCs use messages Req / Res defined in this file (in its own Go package)
	comment   string // if set, the leading comment of every method (with comments = true)
	param     string // the plugin parameter (protoc --connect-go_opt=…)
	fileName  string // the .proto file's name (default dir/probe.proto)
	idem      bool   // the methods declare idempotency_level = NO_SIDE_EFFECTS
}

func (f genFile) commentFor(method string) string {
	if f.comment != "" {
		return f.comment
	}
	return " " + method + " does things.\n A second line with */ and // inside.\n"
}

func (f genFile) request() *pluginpb.CodeGeneratorRequest {
	empty := protodesc.ToFileDescriptorProto((&emptypb.Empty{}).ProtoReflect().Descriptor().ParentFile())
	name := "dir/probe.proto"
	if f.fileName != "" {
		name = f.fileName
	}
	fd := &descriptorpb.FileDescriptorProto{
		Name:       proto.String(name),
		Syntax:     proto.String("proto3"),
		Dependency: []string{"google/protobuf/empty.proto"},
		Options:    &descriptorpb.FileOptions{GoPackage: proto.String(f.goPackage)},
	}
	if f.pkg != "" {
		fd.Package = proto.String(f.pkg)
	}
	loc := &descriptorpb.SourceCodeInfo{}
	for si, s := range f.services {
		sd := &descriptorpb.ServiceDescriptorProto{Name: proto.String(s.name)}
		if s.dep {
			sd.Options = &descriptorpb.ServiceOptions{Deprecated: proto.Bool(true)}
		}
		for mi, m := range s.methods {
			md := &descriptorpb.MethodDescriptorProto{Name: proto.String(m.name), InputType: proto.String(".google.protobuf.Empty"), OutputType: proto.String(".google.protobuf.Empty"),
				ClientStreaming: proto.Bool(m.cs), ServerStreaming: proto.Bool(m.ss)}
			if f.localMsgs {
				pfx := "."
				if f.pkg != "" {
					pfx = "." + f.pkg + "."
				}
				md.InputType, md.OutputType = proto.String(pfx+"Req"), proto.String(pfx+"Res")
			}
			if m.dep {
				md.Options = &descriptorpb.MethodOptions{Deprecated: proto.Bool(true)}
			}
			if f.idem {
				if md.Options == nil {
					md.Options = &descriptorpb.MethodOptions{}
				}
				md.Options.IdempotencyLevel = descriptorpb.MethodOptions_NO_SIDE_EFFECTS.Enum()
			}
			sd.Method = append(sd.Method, md)
			if f.comments {
				loc.Location = append(loc.Location, &descriptorpb.SourceCodeInfo_Location{Path: []int32{6, int32(si), 2, int32(mi)}, Span: []int32{1, 1, 1}, LeadingComments: proto.String(f.commentFor(m.name))})
			}
		}
		fd.Service = append(fd.Service, sd)
	}
	if f.comments {
		fd.SourceCodeInfo = loc
	}
	if f.localMsgs {
		fd.MessageType = []*descriptorpb.DescriptorProto{{Name: proto.String("Req")}, {Name: proto.String("Res")}}
	}
	req := &pluginpb.CodeGeneratorRequest{FileToGenerate: []string{name}, ProtoFile: []*descriptorpb.FileDescriptorProto{empty, fd}}
	if f.param != "" {
		req.Parameter = proto.String(f.param)
	}
	return req
}

func runPlugin(req *pluginpb.CodeGeneratorRequest) (*pluginpb.CodeGeneratorResponse, error) {
	in, err := proto.Marshal(req)
	if err != nil {
		return nil, err
	}
	cmd := exec.Command(pluginPath())
	cmd.Stdin = bytes.NewReader(in)
	var out, stderr bytes.Buffer
	cmd.Stdout, cmd.Stderr = &out, &stderr
	if err := cmd.Run(); err != nil {
		return nil, fmt.Errorf("plugin: %v: %s", err, stderr.String())
	}
	res := &pluginpb.CodeGeneratorResponse{}
	if err := proto.Unmarshal(out.Bytes(), res); err != nil {
		return nil, err
	}
	return res, nil
}

type extracted struct {
	url, mux, proc, field, ctor, call string
}

// extractGenerated pulls, per method GoName, the path strings, constructor and call kind, and
// per service the mount prefix, out of generated source.
func extractGenerated(src string) (methods map[string]*extracted, prefixes map[string]string, err error) {
	fset := token.NewFileSet()
	f, err := parser.ParseFile(fset, "gen.go", src, parser.ParseComments)
	if err != nil {
		return nil, nil, err
	}
	methods = map[string]*extracted{}
	prefixes = map[string]string{}
	get := func(svc, goName string) *extracted {
		k := svc + "." + goName
		if methods[k] == nil {
			methods[k] = &extracted{}
		}
		return methods[k]
	}
	fieldToMethod := map[string]string{} // svc.field -> goName (from client methods: c.field.CallX)
	for _, d := range f.Decls {
		fn, ok := d.(*ast.FuncDecl)
		if !ok || fn.Body == nil {
			continue
		}
		name := fn.Name.Name
		switch {
		case fn.Recv != nil: // client method: func (c *xClient) GoName(...) { return c.field.CallX(...) }
			recv := ""
			if st, ok := fn.Recv.List[0].Type.(*ast.StarExpr); ok {
				if id, ok := st.X.(*ast.Ident); ok {
					recv = id.Name
				}
			}
			if !strings.HasSuffix(recv, "Client") {
				continue
			}
			ast.Inspect(fn.Body, func(n ast.Node) bool {
				call, ok := n.(*ast.CallExpr)
				if !ok {
					return true
				}
				sel, ok := call.Fun.(*ast.SelectorExpr)
				if !ok || !strings.HasPrefix(sel.Sel.Name, "Call") {
					return true
				}
				if inner, ok := sel.X.(*ast.SelectorExpr); ok {
					svc := strings.TrimSuffix(recv, "Client")
					fieldToMethod[strings.ToLower(svc)+"."+inner.Sel.Name] = name
					e := get(strings.ToLower(svc), name)
					e.call = sel.Sel.Name
					e.field = inner.Sel.Name
				}
				return true
			})
		}
	}
	for _, d := range f.Decls {
		fn, ok := d.(*ast.FuncDecl)
		if !ok || fn.Body == nil || fn.Recv != nil {
			continue
		}
		name := fn.Name.Name
		switch {
		case strings.HasPrefix(name, "New") && strings.HasSuffix(name, "Client"):
			svc := strings.ToLower(strings.TrimSuffix(strings.TrimPrefix(name, "New"), "Client"))
			ast.Inspect(fn.Body, func(n ast.Node) bool {
				kv, ok := n.(*ast.KeyValueExpr)
				if !ok {
					return true
				}
				key, ok := kv.Key.(*ast.Ident)
				call, ok2 := kv.Value.(*ast.CallExpr)
				if !ok || !ok2 || len(call.Args) < 2 {
					return true
				}
				if bin, ok := call.Args[1].(*ast.BinaryExpr); ok {
					if lit, ok := bin.Y.(*ast.BasicLit); ok {
						s, _ := strconv.Unquote(lit.Value)
						if goName, ok := fieldToMethod[svc+"."+key.Name]; ok {
							get(svc, goName).url = s
						}
					}
				}
				return true
			})
		case strings.HasPrefix(name, "New") && strings.HasSuffix(name, "Handler"):
			svc := strings.ToLower(strings.TrimSuffix(strings.TrimPrefix(name, "New"), "Handler"))
			ast.Inspect(fn.Body, func(n ast.Node) bool {
				switch x := n.(type) {
				case *ast.CallExpr:
					sel, ok := x.Fun.(*ast.SelectorExpr)
					if !ok || sel.Sel.Name != "Handle" || len(x.Args) != 2 {
						return true
					}
					pat, _ := strconv.Unquote(x.Args[0].(*ast.BasicLit).Value)
					inner, ok := x.Args[1].(*ast.CallExpr)
					if !ok || len(inner.Args) < 2 {
						return true
					}
					ctor := ""
					if s2, ok := inner.Fun.(*ast.SelectorExpr); ok {
						ctor = s2.Sel.Name
					}
					proc, _ := strconv.Unquote(inner.Args[0].(*ast.BasicLit).Value)
					if msel, ok := inner.Args[1].(*ast.SelectorExpr); ok {
						e := get(svc, msel.Sel.Name)
						e.mux, e.proc, e.ctor = pat, proc, ctor
					}
				case *ast.ReturnStmt:
					if len(x.Results) == 2 {
						if lit, ok := x.Results[0].(*ast.BasicLit); ok {
							prefixes[svc], _ = strconv.Unquote(lit.Value)
						}
					}
				}
				return true
			})
		}
	}
	return methods, prefixes, nil
}

// goCamelCase as protogen derives GoName from a proto identifier.
func goCamelCase(s string) string {
	var b []byte
	for i := 0; i < len(s); i++ {
		c := s[i]
		switch {
		case c == '.' && i+1 < len(s) && s[i+1] >= 'a' && s[i+1] <= 'z':
		case c == '.':
			b = append(b, '_')
		case c == '_' && (i == 0 || s[i-1] == '.'):
			b = append(b, 'X')
		case c == '_' && i+1 < len(s) && s[i+1] >= 'a' && s[i+1] <= 'z':
		case c >= '0' && c <= '9':
			b = append(b, c)
		default:
			if c >= 'a' && c <= 'z' {
				c -= 'a' - 'A'
			}
			b = append(b, c)
			for ; i+1 < len(s) && s[i+1] >= 'a' && s[i+1] <= 'z'; i++ {
				b = append(b, s[i+1])
			}
		}
	}
	return string(b)
}

func genCheckFile(c *Ctx, f genFile, outDir string, idx int) {
	desc := fmt.Sprintf("file pkg=%q go_package=%q services=%v", f.pkg, f.goPackage, f.services)
	if f.param != "" {
		desc += " parameter " + f.param
	}
	res, err := runPlugin(f.request())
	if err != nil {
		c.Fail("gen-plugin-failed", desc, err.Error(), "the generator failed on a valid descriptor")
		return
	}
	if res.Error != nil {
		c.Fail("gen-plugin-error", desc, res.GetError(), "the generator reported an error on a valid descriptor")
		return
	}
	// whatever the request contains, the plugin says that it understands proto3 optional fields:
	// protoc refuses plugins that do not as soon as a file uses one (also a file without services)
	if res.GetSupportedFeatures()&uint64(pluginpb.CodeGeneratorResponse_FEATURE_PROTO3_OPTIONAL) == 0 {
		c.Fail("gen-features", desc, fmt.Sprint(res.GetSupportedFeatures()), "the response does not advertise FEATURE_PROTO3_OPTIONAL")
	}
	if len(f.services) == 0 {
		if len(res.File) != 0 {
			c.Fail("gen-no-services", desc, fmt.Sprint(len(res.File)), "a file without services must generate nothing")
		}
		return
	}
	wantFiles := 1
	if strings.Contains(f.param, "annotate_code=true") {
		wantFiles = 2 // the generated file and its .meta companion
	}
	if len(res.File) != wantFiles || !strings.HasSuffix(res.File[0].GetName(), ".connect.go") {
		c.Fail("gen-file-count", desc, fmt.Sprint(len(res.File)), fmt.Sprintf("expected %d generated file(s), the Go file first", wantFiles))
		return
	}
	src := res.File[0].GetContent()
	// determinism
	for i := 0; i < 3; i++ {
		res2, err := runPlugin(f.request())
		if err != nil || len(res2.File) != wantFiles || res2.File[0].GetContent() != src {
			c.Fail("gen-nondeterministic", desc, "", "the generator's output differs between runs on the same input")
			break
		}
	}
	methods, prefixes, err := extractGenerated(src)
	if err != nil {
		c.Fail("gen-unparsable", desc, err.Error(), "the generated code is not syntactically valid Go")
		return
	}
	if outDir != "" {
		dir := filepath.Join(outDir, fmt.Sprintf("g%03d", idx))
		_ = os.MkdirAll(dir, 0o755)
		_ = os.WriteFile(filepath.Join(dir, "gen.connect.go"), []byte(src), 0o644)
	}
	for _, s := range f.services {
		fq := s.name
		if f.pkg != "" {
			fq = f.pkg + "." + s.name
		}
		svcKey := strings.ToLower(goCamelCase(s.name))
		if got := prefixes[svcKey]; got != "/"+fq+"/" {
			c.Fail("gen-mount-prefix", desc, got, "the mount prefix must be /"+fq+"/")
		}
		for _, m := range s.methods {
			goName := goCamelCase(m.name)
			e := methods[svcKey+"."+goName]
			op := fmt.Sprintf("gen pkg=%s svc=%s m=%s go=%s cs=%d ss=%d", hx([]byte(f.pkg)), hx([]byte(s.name)), hx([]byte(m.name)), hx([]byte(goName)), b2i(m.cs), b2i(m.ss))
			if e == nil {
				c.Fail("gen-method-missing", op, "", "no client/handler glue found for the method")
				c.Emit(op, "missing", true)
				continue
			}
			kind := map[string]string{"CallUnary": "unary", "CallClientStream": "client", "CallServerStream": "server", "CallBidiStream": "bidi"}[e.call]
			hkind := map[string]string{"NewUnaryHandler": "unary", "NewClientStreamHandler": "client", "NewServerStreamHandler": "server", "NewBidiStreamHandler": "bidi"}[e.ctor]
			wantKind := map[[2]bool]string{{false, false}: "unary", {true, false}: "client", {false, true}: "server", {true, true}: "bidi"}[[2]bool{m.cs, m.ss}]
			canonical := "/" + fq + "/" + m.name
			if e.url != canonical || e.mux != canonical || e.proc != canonical {
				c.Fail("gen-path", op, fmt.Sprintf("url=%s mux=%s proc=%s", e.url, e.mux, e.proc), "client URL, mux pattern and handler procedure must all be "+canonical)
			}
			// the generated client is documented to accept a base URL with a path prefix
			// ("https://acme.com/grpc"): the procedure it reports to interceptors is still the
			// canonical one the generated handler is built with
			for _, base := range []string{"https://acme.com", "https://acme.com/grpc", "http://h:81/api/v1"} {
				icpt := &specIcpt{}
				cl := connect.NewClient[emptypb.Empty, emptypb.Empty](&staticClient{status: 200, header: http.Header{"Content-Type": {"application/proto"}}}, base+e.url, connect.WithInterceptors(icpt))
				_, _ = cl.CallUnary(context.Background(), connect.NewRequest(&emptypb.Empty{}))
				c.Count("gen-client-procedure")
				if icpt.count != 1 || icpt.spec.Procedure != e.proc {
					c.Fail("gen-client-procedure", op, fmt.Sprintf("base URL %s: client reports %q, handler is built with %q", base, icpt.spec.Procedure, e.proc), "client and handler must agree on the canonical procedure")
					break
				}
			}
			if kind != wantKind || hkind != wantKind {
				c.Fail("gen-constructor", op, kind+"/"+hkind, "the constructor must match the streaming kind "+wantKind)
			}
			if kind != hkind {
				kind = kind + "!=" + hkind
			}
			c.Count("kind:" + wantKind)
			c.Emit(op, fmt.Sprintf("url=%s mux=%s proc=%s prefix=%s field=%s kind=%s", hx([]byte(e.url)), hx([]byte(e.mux)), hx([]byte(e.proc)), hx([]byte(prefixes[svcKey])), hx([]byte(e.field)), kind), true)
		}
	}
}

// procIcpt records the Spec a client-side unary interceptor sees.
type procIcpt struct{ seen []connect.Spec }

func (p *procIcpt) WrapUnary(next connect.UnaryFunc) connect.UnaryFunc {
	return func(ctx context.Context, r connect.AnyRequest) (connect.AnyResponse, error) {
		p.seen = append(p.seen, r.Spec())
		return next(ctx, r)
	}
}
func (p *procIcpt) WrapStreamingClient(next connect.StreamingClientFunc) connect.StreamingClientFunc {
	return next
}
func (p *procIcpt) WrapStreamingHandler(next connect.StreamingHandlerFunc) connect.StreamingHandlerFunc {
	return next
}

// specLabelReuseProbe (C17 / C12, oracle only): a client labels every call with its own
// procedure - also when the Request value it is given has been used before: sent through a
// client for another procedure, or received by a handler that now forwards it (a gateway). What
// the generated client's constructor does per method is one connect.NewClient with the method's
// path: the probe does the same (round 11, C17-mo).
func specLabelReuseProbe(c *Ctx) {
	mk := func(procedure string, icpt *procIcpt) *connect.Client[[]byte, []byte] {
		return connect.NewClient[[]byte, []byte](&staticClient{status: 200, header: http.Header{"Content-Type": {"application/raw"}}, body: []byte{1}},
			"http://h"+procedure, connect.WithCodec(rawCodec{"raw"}), connect.WithInterceptors(icpt))
	}
	// (a) one Request through two clients
	c.Count("spec-label-reuse")
	got := safely(func() string {
		one, two := &procIcpt{}, &procIcpt{}
		req := connect.NewRequest(&[]byte{1})
		_, _ = mk("/acme.v1.Front/One", one).CallUnary(context.Background(), req)
		_, _ = mk("/acme.v1.Back/Two", two).CallUnary(context.Background(), req)
		if len(one.seen) != 1 || len(two.seen) != 1 {
			return "interceptors did not run once each"
		}
		return fmt.Sprintf("%s client=%v | %s client=%v | request says %s", one.seen[0].Procedure, one.seen[0].IsClient, two.seen[0].Procedure, two.seen[0].IsClient, req.Spec().Procedure)
	})
	if got != "/acme.v1.Front/One client=true | /acme.v1.Back/Two client=true | request says /acme.v1.Back/Two" {
		c.Fail("gen-spec-label", "one Request sent through the client for /acme.v1.Front/One and then through the client for /acme.v1.Back/Two", got, "each client labels the call with its own procedure")
	}
	// (b) a handler forwards the request it received
	c.Count("spec-label-reuse")
	got = safely(func() string {
		back := &procIcpt{}
		backClient := mk("/acme.v1.Back/Two", back)
		h := connect.NewUnaryHandler("/acme.v1.Front/One", func(ctx context.Context, r *connect.Request[[]byte]) (*connect.Response[[]byte], error) {
			return backClient.CallUnary(ctx, r)
		}, connect.WithCodec(rawCodec{"raw"}))
		req := httptest.NewRequest(http.MethodPost, "/acme.v1.Front/One", bytes.NewReader([]byte{1}))
		req.Header.Set("Content-Type", "application/raw")
		h.ServeHTTP(httptest.NewRecorder(), req)
		if len(back.seen) != 1 {
			return "the back client's interceptor did not run once"
		}
		return fmt.Sprintf("%s client=%v", back.seen[0].Procedure, back.seen[0].IsClient)
	})
	if got != "/acme.v1.Back/Two client=true" {
		c.Fail("gen-spec-label", "a handler for /acme.v1.Front/One forwards the Request it received through a client for /acme.v1.Back/Two", got, "the client labels the call with its own procedure")
	}
}

func streamGen(c *Ctx) {
	if _, err := os.Stat(pluginPath()); err != nil {
		c.Fail("gen-plugin-missing", "plugin binary", pluginPath(), "the generator does not build")
		return
	}
	r := c.Rng
	keywords := []string{"break", "case", "chan", "const", "continue", "default", "defer", "else", "fallthrough", "for", "func", "go", "goto", "if", "import", "interface", "map", "package", "range", "return", "select", "struct", "switch", "type", "var"}
	var files []genFile
	// keyword-colliding method names (all 25), in both spellings
	var kwMethods []genMethod
	for _, k := range keywords {
		kwMethods = append(kwMethods, genMethod{name: strings.ToUpper(k[:1]) + k[1:]})
	}
	files = append(files, genFile{pkg: "acme.v1", goPackage: "example.com/gen/acme/v1;acmev1", services: []genService{{name: "Kw", methods: kwMethods}}})
	files = append(files, genFile{pkg: "", goPackage: "example.com/gen/nopkg;nopkg", services: []genService{{name: "Svc", methods: []genMethod{{name: "Do"}, {name: "list_things", ss: true}, {name: "fetchItem", cs: true}, {name: "Chat", cs: true, ss: true}}}}})
	files = append(files, genFile{pkg: "single", goPackage: "example.com/gen/single", services: []genService{{name: "A", methods: []genMethod{{name: "X"}}}, {name: "B", methods: []genMethod{{name: "Y", dep: true}}, dep: true}, {name: "C_d", methods: []genMethod{{name: "z_z"}}}}, comments: true})
	files = append(files, genFile{pkg: "a.b.c", goPackage: "example.com/gen/abc;abc", services: nil})
	// a service without methods next to an ordinary one (valid; nothing in the generated
	// constructors may depend on there being a method)
	files = append(files, genFile{pkg: "z.v1", goPackage: "example.com/gen/z/v1;zv1", services: []genService{{name: "Greeter", methods: []genMethod{{name: "Hello"}}}, {name: "Admin"}}})
	files = append(files, genFile{pkg: "z.v2", goPackage: "example.com/gen/z/v2;zv2", services: []genService{{name: "Empty"}}})
	// names that differ only in the case of a leading run of capitals are distinct names: the
	// unexported identifiers derived from them must be distinct too
	files = append(files, genFile{pkg: "caps.v1", goPackage: "example.com/gen/caps/v1;capsv1", services: []genService{
		{name: "APIService", methods: []genMethod{{name: "IDToken"}, {name: "IdToken"}, {name: "GO", ss: true}, {name: "Go", cs: true}, {name: "HTTPGet"}, {name: "HttpGet"}}}}})
	// message packages whose last path element is the name of a package the generated code
	// imports itself (net/http, context, errors, strings, connect): import aliases must not clash.
	// The packages live inside the type-check module (stub types: the generated code is generic).
	for _, last := range []string{"http", "context", "errors", "strings", "connect"} {
		files = append(files, genFile{pkg: "alias." + last, goPackage: "gen.test/msgs/" + last, localMsgs: true, services: []genService{
			{name: "Gateway", methods: []genMethod{{name: "Do"}, {name: "Watch", ss: true}, {name: "Push", cs: true}}}}})
	}
	// plugin parameters protogen understands: annotated output for service names of every shape
	// (the annotation names a symbol of the generated file: it has to exist) - round 9, C17-mk
	for i, svc := range []string{"PingService", "ping_service", "pingService", "Ping_Service2"} {
		files = append(files, genFile{pkg: "ann.v1", goPackage: fmt.Sprintf("example.com/gen/ann/v%d;annv%d", i, i), param: "annotate_code=true", comments: true,
			services: []genService{{name: svc, methods: []genMethod{{name: "Do"}, {name: "watch_all", ss: true}}}}})
	}
	// a .proto file directly in the proto root (no directory in its name), with and without
	// paths=source_relative; and standard method options the generator has no use for (round 10)
	files = append(files, genFile{pkg: "root.v1", goPackage: "example.com/gen/root/v1;rootv1", fileName: "greet.proto", param: "paths=source_relative", services: []genService{{name: "Greeter", methods: []genMethod{{name: "Hello"}}}}})
	files = append(files, genFile{pkg: "root.v2", goPackage: "example.com/gen/root/v2;rootv2", fileName: "greet.proto", services: []genService{{name: "Greeter", methods: []genMethod{{name: "Hello"}}}}})
	files = append(files, genFile{pkg: "idem.v1", goPackage: "example.com/gen/idem/v1;idemv1", idem: true, services: []genService{{name: "Reader", methods: []genMethod{{name: "Get"}, {name: "List", ss: true}}}}})
	files = append(files, genFile{pkg: "ann.v9", goPackage: "example.com/gen/ann/v9;annv9", param: "paths=source_relative", services: []genService{{name: "ping_service", methods: []genMethod{{name: "Do"}}}}})
	// the service whose generated client the type-check step also RUNS (genRunProbe)
	files = append(files, genFile{pkg: "probe.v1", goPackage: "example.com/gen/probe/v1;probev1", services: []genService{{name: "Probe", methods: []genMethod{{name: "Do"}}}}})
	// long names: package, service and method names have no length limit; the synthesized doc
	// comments contain them as single words
	longPkg := "acme.platform.infrastructure.observability.telemetry.ingestion.pipeline.v1alpha1"
	files = append(files, genFile{pkg: longPkg, goPackage: "example.com/gen/long/v1;longv1", comments: true, services: []genService{
		{name: "TelemetryIngestionPipelineService", methods: []genMethod{{name: "Push"}, {name: "PushManyTelemetryRecordsWithAcknowledgementAndBackpressureSignalling", cs: true, ss: true}}},
		{name: "S", methods: []genMethod{{name: "M", ss: true}}}}})
	files = append(files, genFile{pkg: strings.Repeat("p123456789.", 12) + "v1", goPackage: "example.com/gen/long/v2;longv2", services: []genService{{name: strings.Repeat("Svc", 40), methods: []genMethod{{name: strings.Repeat("Do", 60), cs: true}}}}})
	n := 20
	if c.Thorough() {
		n = 200
	}
	names := []string{"Do", "Get", "list_things", "fetchItem", "Import", "Type", "Go", "Select", "Range", "X", "stream_all", "Ping2", "a_b_c", "Func", "Map", "Chan"}
	pkgs := []string{"", "p", "acme.v1", "a.b.c.d", "x1.y2"}
	for i := 0; i < n; i++ {
		f := genFile{pkg: pkgs[r.Intn(len(pkgs))], comments: r.Chance(30)}
		f.goPackage = []string{"example.com/gen/p%d;p%d", "example.com/gen/p%d"}[r.Intn(2)]
		f.goPackage = strings.ReplaceAll(f.goPackage, "%d", strconv.Itoa(i))
		ns := 1 + r.Intn(3)
		for s := 0; s < ns; s++ {
			svc := genService{name: fmt.Sprintf("%sService%d", []string{"Ping", "Type", "s", "My_"}[r.Intn(4)], s), dep: r.Chance(15)}
			used := map[string]bool{}
			nm := 1 + r.Intn(5)
			for m := 0; m < nm; m++ {
				name := names[r.Intn(len(names))]
				if used[goCamelCase(name)] {
					continue
				}
				used[goCamelCase(name)] = true
				svc.methods = append(svc.methods, genMethod{name: name, cs: r.Bool(), ss: r.Bool(), dep: r.Chance(15)})
			}
			f.services = append(f.services, svc)
		}
		files = append(files, f)
	}
	outDir := filepath.Join(os.TempDir(), fmt.Sprintf("verif-gen-%d", os.Getpid()))
	_ = os.RemoveAll(outDir)
	defer os.RemoveAll(outDir)
	for i, f := range files {
		genCheckFile(c, f, outDir, i)
	}
	genMultiFileProbe(c)
	genVersionedPackagesProbe(c)
	genCollisionProbes(c)
	specLabelReuseProbe(c)
	typecheckGenerated(c, outDir)
	checkedInOutput(c)
}

// genCollisionProbes (F33): valid Protobuf files on which the generator's naming scheme collides
// with itself - an import alias with a constructor parameter, a service's client struct with a
// parameter, two services' derived identifiers, two methods with one GoName - and a comment that
// cannot be copied into Go source verbatim. Each case is generated and built on its own, so that
// one does not hide another (or anything else).
func genCollisionProbes(c *Ctx) {
	dir := filepath.Join(os.TempDir(), fmt.Sprintf("verif-gen-coll-%d", os.Getpid()))
	_ = os.RemoveAll(dir)
	defer os.RemoveAll(dir)
	one := []genMethod{{name: "Do"}, {name: "Watch", ss: true}}
	cases := []struct {
		key, what string
		f         genFile
	}{
		{"gen-collide-param-import", "messages in a Go package named opts (go_package \"gen.test/msgs/opts\")", genFile{pkg: "coll.a", goPackage: "gen.test/msgs/opts", localMsgs: true, services: []genService{{name: "Gateway", methods: one}}}},
		{"gen-collide-param-import", "messages in a Go package named baseURL", genFile{pkg: "coll.b", goPackage: "gen.test/msgs/baseURL", localMsgs: true, services: []genService{{name: "Gateway", methods: one}}}},
		{"gen-collide-service-param", "a service named Http", genFile{pkg: "coll.c", goPackage: "example.com/gen/coll/c;collc", services: []genService{{name: "Http", methods: one}}}},
		{"gen-collide-service-pair", "services Foo and NewFoo in one file", genFile{pkg: "coll.d", goPackage: "example.com/gen/coll/d;colld", services: []genService{{name: "Foo", methods: one}, {name: "NewFoo", methods: one}}}},
		{"gen-collide-service-pair", "services Foo and UnimplementedFoo in one file", genFile{pkg: "coll.e", goPackage: "example.com/gen/coll/e;colle", services: []genService{{name: "Foo", methods: one}, {name: "UnimplementedFoo", methods: one}}}},
		{"gen-collide-method-goname", "rpcs GetThing and get_thing in one service", genFile{pkg: "coll.f", goPackage: "example.com/gen/coll/f;collf", services: []genService{{name: "Things", methods: []genMethod{{name: "GetThing"}, {name: "get_thing"}}}}}},
		{"gen-relative-go-package", "go_package \"./;pb\" (the relative form of many tutorials)", genFile{pkg: "coll.h", goPackage: "./;pb", localMsgs: true, services: []genService{{name: "Gateway", methods: one}}}},
		{"gen-comment-bom", "a leading comment containing U+FEFF", genFile{pkg: "coll.g", goPackage: "example.com/gen/coll/g;collg", comments: true, comment: " Do \ufeff does things.\n", services: []genService{{name: "Svc", methods: one}}}},
	}
	gomod := "module gen.test\n\ngo 1.18\n\nrequire (\n\tgithub.com/bufbuild/connect-go v0.0.0\n\tgoogle.golang.org/protobuf v1.28.0\n)\n\nreplace github.com/bufbuild/connect-go => " + repoDir() + "\n"
	_ = os.MkdirAll(dir, 0o755)
	_ = os.WriteFile(filepath.Join(dir, "go.mod"), []byte(gomod), 0o644)
	if sum, err := os.ReadFile(filepath.Join(repoDir(), "go.sum")); err == nil {
		_ = os.WriteFile(filepath.Join(dir, "go.sum"), sum, 0o644)
	}
	for _, last := range []string{"opts", "baseURL"} {
		d := filepath.Join(dir, "msgs", last)
		_ = os.MkdirAll(d, 0o755)
		_ = os.WriteFile(filepath.Join(d, "types.go"), []byte("package "+last+"\n\ntype Req struct{}\ntype Res struct{}\n"), 0o644)
	}
	for i, tc := range cases {
		desc := "valid file with " + tc.what
		c.Begin(desc)
		c.Count("gen-collision-probe")
		res, err := runPlugin(tc.f.request())
		if err != nil {
			c.Fail(tc.key, desc, err.Error(), "the generator failed on a valid descriptor")
			continue
		}
		if res.Error != nil {
			c.Fail(tc.key, desc, res.GetError(), "the generator reported an error on a valid descriptor")
			continue
		}
		if len(res.File) != 1 {
			c.Fail(tc.key, desc, fmt.Sprint(len(res.File)), "expected exactly one generated file")
			continue
		}
		pkgDir := filepath.Join(dir, fmt.Sprintf("c%02d", i))
		_ = os.MkdirAll(pkgDir, 0o755)
		_ = os.WriteFile(filepath.Join(pkgDir, "gen.connect.go"), []byte(res.File[0].GetContent()), 0o644)
		bctx, bcancel := context.WithTimeout(context.Background(), 120*time.Second)
		cmd := exec.CommandContext(bctx, "go", "build", fmt.Sprintf("./c%02d/", i))
		cmd.Dir = dir
		cmd.Env = append(os.Environ(), "GOFLAGS=-mod=mod", "GOPROXY=off", "GOSUMDB=off", "GOTOOLCHAIN=local")
		out, berr := cmd.CombinedOutput()
		bcancel()
		if berr != nil {
			text := strings.ReplaceAll(string(out), "\n", " | ")
			if len(text) > 400 {
				text = text[:400]
			}
			c.Fail(tc.key, desc, text, "the generated code does not type-check")
		}
	}
}

// genMultiFileProbe: one request naming several files - a file with only messages before the
// file with the service (protoc passes them in the order given on its command line): every
// service file gets its output, whatever stands in front of it.
func genMultiFileProbe(c *Ctx) {
	empty := protodesc.ToFileDescriptorProto((&emptypb.Empty{}).ProtoReflect().Descriptor().ParentFile())
	types := &descriptorpb.FileDescriptorProto{
		Name: proto.String("dir/a_types.proto"), Syntax: proto.String("proto3"), Package: proto.String("multi.v1"),
		Options:     &descriptorpb.FileOptions{GoPackage: proto.String("example.com/gen/multi/v1;multiv1")},
		MessageType: []*descriptorpb.DescriptorProto{{Name: proto.String("Thing")}},
	}
	mkSvc := func(file, svc string) *descriptorpb.FileDescriptorProto {
		return &descriptorpb.FileDescriptorProto{
			Name: proto.String(file), Syntax: proto.String("proto3"), Package: proto.String("multi.v1"),
			Dependency: []string{"google/protobuf/empty.proto"},
			Options:    &descriptorpb.FileOptions{GoPackage: proto.String("example.com/gen/multi/v1;multiv1")},
			Service: []*descriptorpb.ServiceDescriptorProto{{Name: proto.String(svc), Method: []*descriptorpb.MethodDescriptorProto{{
				Name: proto.String("Hello"), InputType: proto.String(".google.protobuf.Empty"), OutputType: proto.String(".google.protobuf.Empty")}}}},
		}
	}
	b, d := mkSvc("dir/b_service.proto", "Greeter"), mkSvc("dir/d_service.proto", "Other")
	for _, order := range [][]string{{"dir/a_types.proto", "dir/b_service.proto"}, {"dir/b_service.proto", "dir/a_types.proto", "dir/d_service.proto"}, {"dir/a_types.proto", "dir/b_service.proto", "dir/d_service.proto"}} {
		desc := "one request for files " + strings.Join(order, ", ")
		res, err := runPlugin(&pluginpb.CodeGeneratorRequest{FileToGenerate: order, ProtoFile: []*descriptorpb.FileDescriptorProto{empty, types, b, d}})
		c.Count("gen-multi-file")
		if err != nil || res.Error != nil {
			c.Fail("gen-plugin-failed", desc, fmt.Sprint(err, res.GetError()), "the generator failed on a valid request")
			continue
		}
		wantFiles := 0
		for _, f := range order {
			if strings.Contains(f, "_service") {
				wantFiles++
			}
		}
		var names []string
		paths := 0
		for _, f := range res.File {
			names = append(names, f.GetName())
			if strings.Contains(f.GetContent(), "/multi.v1.Greeter/Hello") || strings.Contains(f.GetContent(), "/multi.v1.Other/Hello") {
				paths++
			}
		}
		if len(res.File) != wantFiles || paths != wantFiles {
			c.Fail("gen-file-count", desc, fmt.Sprintf("%d files %v, %d with their procedure path", len(res.File), names, paths), fmt.Sprintf("every file with services gets its generated file (%d expected)", wantFiles))
		}
	}
}

// genVersionedPackagesProbe: one plugin run over two versions of an API - same service and
// method names, different packages (acme.greet.v1 / acme.greet.v2): every generated file routes
// its RPCs at ITS canonical paths and mentions none of the other package's.
func genVersionedPackagesProbe(c *Ctx) {
	empty := protodesc.ToFileDescriptorProto((&emptypb.Empty{}).ProtoReflect().Descriptor().ParentFile())
	mk := func(ver string) *descriptorpb.FileDescriptorProto {
		return &descriptorpb.FileDescriptorProto{
			Name: proto.String("acme/greet/" + ver + "/greet.proto"), Syntax: proto.String("proto3"), Package: proto.String("acme.greet." + ver),
			Dependency: []string{"google/protobuf/empty.proto"},
			Options:    &descriptorpb.FileOptions{GoPackage: proto.String("example.com/gen/acme/greet/" + ver + ";greet" + ver)},
			Service: []*descriptorpb.ServiceDescriptorProto{{Name: proto.String("GreetService"), Method: []*descriptorpb.MethodDescriptorProto{
				{Name: proto.String("Greet"), InputType: proto.String(".google.protobuf.Empty"), OutputType: proto.String(".google.protobuf.Empty")},
				{Name: proto.String("Watch"), InputType: proto.String(".google.protobuf.Empty"), OutputType: proto.String(".google.protobuf.Empty"), ServerStreaming: proto.Bool(true)}}}},
		}
	}
	v1, v2 := mk("v1"), mk("v2")
	for _, order := range [][]string{{v1.GetName(), v2.GetName()}, {v2.GetName(), v1.GetName()}} {
		desc := "one request for " + strings.Join(order, " and ")
		res, err := runPlugin(&pluginpb.CodeGeneratorRequest{FileToGenerate: order, ProtoFile: []*descriptorpb.FileDescriptorProto{empty, v1, v2}})
		c.Count("gen-versioned-packages")
		if err != nil || res.Error != nil {
			c.Fail("gen-plugin-failed", desc, fmt.Sprint(err, res.GetError()), "the generator failed on a valid request")
			continue
		}
		if len(res.File) != 2 {
			c.Fail("gen-file-count", desc, fmt.Sprint(len(res.File)), "two files with services, two generated files")
			continue
		}
		for _, f := range res.File {
			own, other := "v1", "v2"
			if strings.Contains(f.GetName(), "/v2/") || strings.Contains(f.GetName(), "greetv2") {
				own, other = "v2", "v1"
			}
			content := f.GetContent()
			for _, m := range []string{"Greet", "Watch"} {
				if !strings.Contains(content, `"/acme.greet.`+own+`.GreetService/`+m+`"`) {
					c.Fail("gen-path", desc, f.GetName(), "the file for acme.greet."+own+" does not route "+m+" at /acme.greet."+own+".GreetService/"+m)
				}
			}
			if strings.Contains(content, `/acme.greet.`+other+`.GreetService/`) {
				c.Fail("gen-path", desc, f.GetName(), "the file for acme.greet."+own+" mentions paths of acme.greet."+other)
			}
		}
	}
}

// typecheckGenerated builds all generated packages against the library in one `go build`.
func typecheckGenerated(c *Ctx, outDir string) {
	entries, _ := os.ReadDir(outDir)
	if len(entries) == 0 {
		return
	}
	// stub message packages for the alias-collision files
	for _, last := range []string{"http", "context", "errors", "strings", "connect"} {
		dir := filepath.Join(outDir, "msgs", last)
		_ = os.MkdirAll(dir, 0o755)
		_ = os.WriteFile(filepath.Join(dir, "types.go"), []byte("package "+last+"\n\ntype Req struct{}\ntype Res struct{}\n"), 0o644)
	}
	// a program that uses the generated Probe client with base URLs ending in 0..3 slashes
	probeDir := ""
	for _, e := range entries {
		if b, err := os.ReadFile(filepath.Join(outDir, e.Name(), "gen.connect.go")); err == nil && strings.Contains(string(b), "NewProbeClient") {
			probeDir = e.Name()
		}
	}
	if probeDir != "" {
		dir := filepath.Join(outDir, "runprobe")
		_ = os.MkdirAll(dir, 0o755)
		_ = os.WriteFile(filepath.Join(dir, "main.go"), []byte(`package main

import (
	"context"
	"fmt"
	"io"
	"net/http"
	"strings"

	connect "github.com/bufbuild/connect-go"
	probe "gen.test/`+probeDir+`"
	"google.golang.org/protobuf/types/known/emptypb"
)

type capture struct{}

func (capture) Do(r *http.Request) (*http.Response, error) {
	fmt.Println("URL", r.URL.String())
	go func() { _, _ = io.Copy(io.Discard, r.Body); _ = r.Body.Close() }()
	return &http.Response{StatusCode: 200, Header: http.Header{"Content-Type": {"application/proto"}}, Body: io.NopCloser(strings.NewReader(""))}, nil
}

func main() {
	for _, base := range []string{"http://h", "http://h/", "http://h//", "http://h/api///"} {
		cl := probe.NewProbeClient(capture{}, base)
		_, _ = cl.Do(context.Background(), connect.NewRequest(&emptypb.Empty{}))
	}
}
`), 0o644)
	}
	gomod := "module gen.test\n\ngo 1.18\n\nrequire (\n\tgithub.com/bufbuild/connect-go v0.0.0\n\tgoogle.golang.org/protobuf v1.28.0\n)\n\nreplace github.com/bufbuild/connect-go => " + repoDir() + "\n"
	_ = os.WriteFile(filepath.Join(outDir, "go.mod"), []byte(gomod), 0o644)
	if sum, err := os.ReadFile(filepath.Join(repoDir(), "go.sum")); err == nil {
		_ = os.WriteFile(filepath.Join(outDir, "go.sum"), sum, 0o644)
	}
	cmd := exec.Command("go", "build", "./...")
	cmd.Dir = outDir
	cmd.Env = append(os.Environ(), "GOFLAGS=-mod=mod", "GOPROXY=off", "GOSUMDB=off", "GOTOOLCHAIN=local")
	out, err := cmd.CombinedOutput()
	c.Count("typecheck-packages")
	if err != nil {
		text := string(out)
		if len(text) > 1500 {
			text = text[:1500]
		}
		c.Fail("gen-typecheck", fmt.Sprintf("go build of %d generated packages", len(entries)), strings.ReplaceAll(text, "\n", " | "), "generated code does not type-check against the library")
		return
	}
	if probeDir == "" {
		return
	}
	// run the generated client: whatever number of trailing slashes the base URL has, the request
	// goes to <base>/<canonical path>
	rctx, rcancel := context.WithTimeout(context.Background(), 90*time.Second)
	defer rcancel()
	run := exec.CommandContext(rctx, "go", "run", "./runprobe")
	run.Dir = outDir
	run.Env = cmd.Env
	rout, rerr := run.CombinedOutput()
	want := "URL http://h/probe.v1.Probe/Do\nURL http://h/probe.v1.Probe/Do\nURL http://h/probe.v1.Probe/Do\nURL http://h/api/probe.v1.Probe/Do\n"
	c.Count("gen-run-probe")
	if rerr != nil || string(rout) != want {
		c.Fail("gen-path", "the generated NewProbeClient with base URLs http://h, http://h/, http://h//, http://h/api///", strings.ReplaceAll(string(rout), "\n", " | "), "the generated client must call <base without trailing slashes>/probe.v1.Probe/Do")
	}
}

// checkedInOutput: the generated code in the repository is what the generator produces from the
// checked-in descriptor (embedded in ping.pb.go), comment lines aside.
func checkedInOutput(c *Ctx) {
	pb := filepath.Join(repoDir(), "internal/gen/connect/ping/v1/ping.pb.go")
	fset := token.NewFileSet()
	f, err := parser.ParseFile(fset, pb, nil, 0)
	if err != nil {
		c.Fail("gen-checked-in", "parse ping.pb.go", err.Error(), "cannot read the checked-in descriptor")
		return
	}
	var raw []byte
	ast.Inspect(f, func(n ast.Node) bool {
		vs, ok := n.(*ast.ValueSpec)
		if !ok || len(vs.Names) != 1 || !strings.HasSuffix(vs.Names[0].Name, "_rawDesc") || len(vs.Values) != 1 {
			return true
		}
		if lit, ok := vs.Values[0].(*ast.CompositeLit); ok {
			for _, el := range lit.Elts {
				if bl, ok := el.(*ast.BasicLit); ok {
					v, _ := strconv.ParseUint(bl.Value, 0, 8)
					raw = append(raw, byte(v))
				}
			}
		}
		return true
	})
	fd := &descriptorpb.FileDescriptorProto{}
	if len(raw) == 0 || proto.Unmarshal(raw, fd) != nil {
		c.Fail("gen-checked-in", "descriptor in ping.pb.go", fmt.Sprint(len(raw)), "cannot decode the checked-in descriptor")
		return
	}
	res, err := runPlugin(&pluginpb.CodeGeneratorRequest{FileToGenerate: []string{fd.GetName()}, ProtoFile: []*descriptorpb.FileDescriptorProto{fd}})
	if err != nil || res.Error != nil || len(res.File) != 1 {
		c.Fail("gen-checked-in", "generate from ping.proto's descriptor", fmt.Sprint(err, res.GetError()), "the generator fails on the checked-in descriptor")
		return
	}
	want, err := os.ReadFile(filepath.Join(repoDir(), "internal/gen/connect/ping/v1/pingv1connect/ping.connect.go"))
	if err != nil {
		c.Fail("gen-checked-in", "read ping.connect.go", err.Error(), "")
		return
	}
	strip := func(s string) string {
		var keep []string
		for _, line := range strings.Split(s, "\n") {
			t := strings.TrimSpace(line)
			if strings.HasPrefix(t, "//") || t == "" {
				continue
			}
			keep = append(keep, t)
		}
		return strings.Join(keep, "\n")
	}
	c.Count("checked-in")
	if strip(res.File[0].GetContent()) != strip(string(want)) {
		c.Fail("gen-checked-in-differs", "ping.connect.go vs generator output (comment lines aside)", "", "the checked-in generated code is not what the generator produces from the checked-in descriptor")
	}
}
