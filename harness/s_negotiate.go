package main

import (
	"bytes"
	"compress/gzip"
	"context"
	"fmt"
	"google.golang.org/protobuf/types/known/wrapperspb"
	"io"
	"math"
	"net/http"
	"net/http/httptest"
	"regexp"
	"strings"
	"sync"
	"sync/atomic"

	connect "github.com/bufbuild/connect-go"
)

// S-neg (C08): compression negotiation through real handlers / clients.
//   neg proto=P kind=K reg=a,b sent=HEX accept=HEX  -> ok resp=NAME names=a,b | unimplemented names=a,b
//   cmin pool=0|1 min=N size=N proto= kind=           -> compressed=0|1   (client request side)

func init() { register("neg", "C08", streamNeg) }

var supportedRe = regexp.MustCompile(`supported encodings are (.*)$`)

func compressionOpts(names []string) []connect.HandlerOption {
	var opts []connect.HandlerOption
	for i, n := range names {
		if n == "gzip" {
			if i == 0 {
				continue // registered by default, first
			}
			opts = append(opts, connect.WithCompression(n,
				func() connect.Decompressor { return &gzip.Reader{} },
				func() connect.Compressor { return gzip.NewWriter(io.Discard) }))
			continue
		}
		opts = append(opts, connect.WithCompression(n, newRLEDecompressor, newRLECompressor))
	}
	return opts
}

func negOp(c *Ctx, op string) {
	c.Begin(op)
	a := kvArgs(strings.Fields(op))
	reg := strings.Split(a["reg"], ",")
	sent, accept := string(unhx(a["sent"])), string(unhx(a["accept"]))
	proto, kind := a["proto"], a["kind"]
	userRuns := 0
	ans := safely(func() string {
		opts := append(compressionOpts(reg), connect.WithCodec(rawCodec{"raw"}))
		big := bytes.Repeat([]byte{7}, 300)
		var h *connect.Handler
		if kind == "unary" {
			h = connect.NewUnaryHandler("/s/m", func(ctx context.Context, r *connect.Request[[]byte]) (*connect.Response[[]byte], error) {
				userRuns++
				return connect.NewResponse(&big), nil
			}, opts...)
		} else {
			h = connect.NewServerStreamHandler("/s/m", func(ctx context.Context, r *connect.Request[[]byte], s *connect.ServerStream[[]byte]) error {
				userRuns++
				return s.Send(&big)
			}, opts...)
		}
		var ct, sentHdr, acceptHdr, decoyHdr, respHdr string
		body := frame(0, []byte{1})
		switch proto {
		case "connect":
			if kind == "unary" {
				ct, sentHdr, acceptHdr, decoyHdr, respHdr = "application/raw", "Content-Encoding", "Accept-Encoding", "Connect-Accept-Encoding", "Content-Encoding"
				body = []byte{1}
			} else {
				ct, sentHdr, acceptHdr, decoyHdr, respHdr = "application/connect+raw", "Connect-Content-Encoding", "Connect-Accept-Encoding", "Accept-Encoding", "Connect-Content-Encoding"
			}
		case "grpc":
			ct, sentHdr, acceptHdr, decoyHdr, respHdr = "application/grpc+raw", "Grpc-Encoding", "Grpc-Accept-Encoding", "Accept-Encoding", "Grpc-Encoding"
		default:
			ct, sentHdr, acceptHdr, decoyHdr, respHdr = "application/grpc-web+raw", "Grpc-Encoding", "Grpc-Accept-Encoding", "Accept-Encoding", "Grpc-Encoding"
		}
		// if the request claims a supported compression, actually compress the body
		if sent != "" && sent != "identity" {
			payload := []byte{1}
			var z []byte
			if sent == "gzip" {
				var buf bytes.Buffer
				zw := gzip.NewWriter(&buf)
				_, _ = zw.Write(payload)
				_ = zw.Close()
				z = buf.Bytes()
			} else {
				z = rleCompress(payload)
			}
			if proto == "connect" && kind == "unary" {
				body = z
			} else {
				body = frame(1, z)
			}
		}
		req := httptest.NewRequest(http.MethodPost, "/s/m", bytes.NewReader(body))
		req.ProtoMajor, req.ProtoMinor, req.Proto = 2, 0, "HTTP/2.0"
		req.Header["Content-Type"] = []string{ct}
		if sent != "" {
			req.Header[sentHdr] = []string{sent}
		}
		if accept != "" {
			req.Header[acceptHdr] = []string{accept}
		}
		// decoy: the header of the *other* layer advertises the reverse preference
		fields := strings.FieldsFunc(accept, func(r rune) bool { return r == ',' || r == ' ' })
		for i, j := 0, len(fields)-1; i < j; i, j = i+1, j-1 {
			fields[i], fields[j] = fields[j], fields[i]
		}
		if len(fields) > 1 {
			req.Header[decoyHdr] = []string{strings.Join(fields, ",")}
		} else if accept == "" {
			req.Header[decoyHdr] = []string{strings.Join(reg, ",")}
		}
		rec := httptest.NewRecorder()
		h.ServeHTTP(rec, req)
		res := rec.Result()
		names := res.Header.Get(acceptHdr)
		// error?
		errText := ""
		switch {
		case proto == "connect" && kind == "unary":
			if res.StatusCode != 200 {
				b, _ := io.ReadAll(res.Body)
				errText = string(b)
			}
		case proto == "connect":
			b, _ := io.ReadAll(res.Body)
			for len(b) >= 5 {
				n := int(b[1])<<24 | int(b[2])<<16 | int(b[3])<<8 | int(b[4])
				if len(b) < 5+n {
					break
				}
				if b[0]&2 != 0 {
					p := b[5 : 5+n]
					if b[0]&1 != 0 {
						if enc := res.Header.Get(respHdr); enc == "gzip" {
							zr, err := gzip.NewReader(bytes.NewReader(p))
							if err == nil {
								p, _ = io.ReadAll(zr)
							}
						} else {
							p, _ = rleExpand(p, 1<<20)
						}
					}
					if strings.Contains(string(p), `"error"`) {
						errText = string(p)
					}
				}
				b = b[5+n:]
			}
		default:
			status := res.Trailer.Get("Grpc-Status")
			msg := res.Trailer.Get("Grpc-Message")
			if status == "" {
				status, msg = res.Header.Get("Grpc-Status"), res.Header.Get("Grpc-Message")
			}
			if status == "" && proto == "grpcweb" {
				b, _ := io.ReadAll(res.Body)
				for len(b) >= 5 {
					n := int(b[1])<<24 | int(b[2])<<16 | int(b[3])<<8 | int(b[4])
					if len(b) < 5+n {
						break
					}
					if b[0]&0x80 != 0 {
						p := b[5 : 5+n]
						if b[0]&1 != 0 {
							if res.Header.Get(respHdr) == "gzip" {
								if zr, err := gzip.NewReader(bytes.NewReader(p)); err == nil {
									p, _ = io.ReadAll(zr)
								}
							} else {
								p, _ = rleExpand(p, 1<<20)
							}
						}
						for _, line := range strings.Split(string(p), "\r\n") {
							if strings.HasPrefix(strings.ToLower(line), "grpc-status:") {
								status = strings.TrimSpace(line[12:])
							}
							if strings.HasPrefix(strings.ToLower(line), "grpc-message:") {
								msg = strings.TrimSpace(line[13:])
							}
						}
					}
					b = b[5+n:]
				}
			}
			if status != "0" && status != "" {
				errText = "status=" + status + " " + connect.VerifGRPCPercentDecode(msg)
			}
		}
		if errText != "" {
			if m := supportedRe.FindStringSubmatch(strings.TrimRight(errText, `"}] `)); m != nil {
				sup := strings.TrimRight(m[1], `"}`)
				isUnimpl := strings.Contains(errText, "unimplemented") || strings.Contains(errText, "status=12")
				if !isUnimpl {
					return "wrong-code " + errText
				}
				return "unimplemented names=" + sup
			}
			return "error " + strings.ReplaceAll(errText, "\n", " ")
		}
		resp := res.Header.Get(respHdr)
		if resp == "" {
			resp = "identity"
		}
		return fmt.Sprintf("ok resp=%s names=%s", resp, names)
	})
	// oracle (independent of the model)
	has := func(n string) bool {
		for _, r := range reg {
			if r == n {
				return true
			}
		}
		return false
	}
	switch {
	case sent != "" && sent != "identity" && !has(sent):
		if !strings.HasPrefix(ans, "unimplemented") || userRuns != 0 {
			c.Fail("neg-unknown", op, fmt.Sprintf("%s userRuns=%d", ans, userRuns), "a request compressed with an unsupported algorithm must be rejected as unimplemented without running user code")
		} else {
			listed := strings.Split(strings.TrimPrefix(ans, "unimplemented names="), ",")
			set := map[string]bool{}
			for _, l := range listed {
				set[l] = true
			}
			for _, r := range reg {
				if !set[r] {
					c.Fail("neg-unknown-list", op, ans, "the unimplemented error must list the supported algorithms")
				}
			}
		}
	case strings.HasPrefix(ans, "ok resp="):
		resp := strings.Fields(strings.TrimPrefix(ans, "ok resp="))[0]
		want := "identity"
		if sent != "" && sent != "identity" {
			want = sent
		} else {
			for _, f := range strings.FieldsFunc(accept, func(r rune) bool { return r == ',' || r == ' ' }) {
				if has(f) {
					want = f
					break
				}
			}
		}
		if resp != want {
			c.Fail("neg-choice", op, ans, "response compression must be the request's algorithm or the client's most-preferred mutually supported one: want "+want)
		}
		if userRuns != 1 {
			c.Fail("neg-run", op, ans, "user code did not run exactly once")
		}
	default:
		c.Fail("neg-unexpected", op, ans, "negotiation failed unexpectedly")
	}
	c.Count(proto + "/" + kind + ":" + strings.Fields(ans)[0])
	c.Emit(op, ans, true)
}

type bodyCapture struct {
	mu     sync.Mutex
	body   []byte
	header http.Header
}

func (b *bodyCapture) Do(req *http.Request) (*http.Response, error) {
	data, _ := io.ReadAll(req.Body)
	b.mu.Lock()
	b.body, b.header = data, req.Header.Clone()
	b.mu.Unlock()
	return (&staticClient{status: 200, header: http.Header{"Content-Type": {req.Header.Get("Content-Type")}}}).Do(&http.Request{Body: io.NopCloser(strings.NewReader("")), Header: req.Header})
}

// cminOp: does a real client compress a request message of `size` bytes with minimum `min`?
func cminOp(c *Ctx, op string) {
	c.Begin(op)
	a := kvArgs(strings.Fields(op))
	size, min := atoi(a["size"]), atoi(a["min"])
	if strings.HasPrefix(a["min"], "-") {
		min = -atoi(a["min"][1:])
	}
	ans := safely(func() string {
		cap := &bodyCapture{}
		opts := []connect.ClientOption{connect.WithCodec(rawCodec{"raw"}), connect.WithCompressMinBytes(min),
			connect.WithAcceptCompression("rle", newRLEDecompressor, newRLECompressor)}
		if a["pool"] == "1" {
			opts = append(opts, connect.WithSendCompression("rle"))
		}
		switch a["proto"] {
		case "grpc":
			opts = append(opts, connect.WithGRPC())
		case "grpcweb":
			opts = append(opts, connect.WithGRPCWeb())
		}
		cl := connect.NewClient[[]byte, []byte](cap, "http://h/s/m", opts...)
		msg := bytes.Repeat([]byte{65}, size)
		if a["kind"] == "unary" {
			_, _ = cl.CallUnary(context.Background(), connect.NewRequest(&msg))
		} else {
			s := cl.CallClientStream(context.Background())
			_ = s.Send(&msg)
			_, _ = s.CloseAndReceive()
		}
		cap.mu.Lock()
		defer cap.mu.Unlock()
		if cap.header == nil {
			return "no-request"
		}
		if a["proto"] == "connect" && a["kind"] == "unary" {
			enc := cap.header.Get("Content-Encoding")
			compressed := enc != "" && enc != "identity"
			// the body must be consistent with the header
			if compressed {
				if out, ok := rleExpand(cap.body, 1<<20); !ok || !bytes.Equal(out, msg) {
					c.Fail("cmin-header-body", op, hx(cap.body), "request is labelled compressed but the body is not the compressed message")
				}
			} else if !bytes.Equal(cap.body, msg) {
				c.Fail("cmin-header-body", op, hx(cap.body), "request is not labelled compressed but the body is not the plain message")
			}
			return fmt.Sprintf("compressed=%d", b2i(compressed))
		}
		if len(cap.body) < 5 {
			return "short-body"
		}
		return fmt.Sprintf("compressed=%d", cap.body[0]&1)
	})
	want := b2i(a["pool"] == "1" && size >= min)
	if ans != fmt.Sprintf("compressed=%d", want) {
		c.Fail("cmin-threshold", op, ans, "messages below compress-min-bytes go uncompressed, others are compressed when send-compression is on")
	}
	c.Count("cmin:" + a["proto"] + "/" + a["kind"])
	c.Emit(op, ans, true)
}

// halfRegisteredProbe (C08, oracle only): "a handler compresses responses only with an algorithm
// it supports", "a request compressed with an algorithm the handler lacks is rejected as
// unimplemented ... without running user code": an algorithm registered with only one of its two
// constructors is not supported - in neither direction (round 11, C08-mp; F22 is the both-nil case).
func halfRegisteredProbe(c *Ctx) {
	for _, proto := range []string{"connect", "grpc", "grpcweb"} {
		for _, missing := range []string{"compressor", "decompressor"} {
			for _, how := range []string{"sent", "accepted"} {
				runs := 0
				opt := connect.WithCompression("zz", newRLEDecompressor, nil)
				if missing == "decompressor" {
					opt = connect.WithCompression("zz", nil, newRLECompressor)
				}
				h := connect.NewUnaryHandler("/s/m", func(ctx context.Context, r *connect.Request[[]byte]) (*connect.Response[[]byte], error) {
					runs++
					return connect.NewResponse(&[]byte{1, 1, 1, 1, 1, 1}), nil
				}, connect.WithCodec(rawCodec{"raw"}), opt, connect.WithCompressMinBytes(0))
				desc := fmt.Sprintf("%s unary handler with \"zz\" registered without a %s; the request names zz as %s", proto, missing, how)
				c.Count("half-registered-probe")
				got := safely(func() string {
					body := rleCompress([]byte{9, 9, 9})
					fl := byte(0)
					if how == "sent" {
						fl = 1
					} else {
						body = []byte{9, 9, 9}
					}
					if proto != "connect" {
						body = frame(fl, body)
					}
					req := httptest.NewRequest(http.MethodPost, "/s/m", bytes.NewReader(body))
					req.ProtoMajor, req.ProtoMinor, req.Proto = 2, 0, "HTTP/2.0"
					req.Header.Set("Content-Type", ctFor(proto, "unary", "raw"))
					encH, accH := encHeaderFor(proto, "unary")
					if how == "sent" {
						req.Header.Set(encH, "zz")
					} else {
						req.Header.Set(accH, "zz")
					}
					rec := httptest.NewRecorder()
					h.ServeHTTP(rec, req)
					code, _ := responseErrorCode(proto, "unary", rec)
					return fmt.Sprintf("runs=%d code=%d response-encoding=%q", runs, code, rec.Result().Header.Get(encH))
				})
				want := "runs=0 code=12 response-encoding=\"\""
				if how == "accepted" {
					want = "runs=1 code=0 response-encoding=\"\""
				}
				if got != want {
					c.Fail("neg-half-registered", desc, got, "an algorithm registered without both constructors is not supported: "+want)
				}
			}
		}
	}
}

// identityNamedPoolProbe (C08, oracle only): "names it in the protocol's encoding header": the
// name identity means "not compressed" everywhere the headers are written and read - also when
// somebody registers a pool under that name: nothing is compressed then, in either direction
// (round 11, C08-mo).
func identityNamedPoolProbe(c *Ctx) {
	for _, proto := range []string{"connect", "grpc", "grpcweb"} {
		for _, kind := range []string{"unary", "server"} {
			desc := fmt.Sprintf("%s %s handler with a pool registered under the name identity; the client accepts identity", proto, kind)
			c.Count("identity-named-pool-probe")
			got := safely(func() string {
				payload := bytes.Repeat([]byte{5}, 40)
				var h *connect.Handler
				opts := []connect.HandlerOption{connect.WithCodec(rawCodec{"raw"}), connect.WithCompression("identity", newRLEDecompressor, newRLECompressor), connect.WithCompressMinBytes(0)}
				if kind == "unary" {
					h = connect.NewUnaryHandler("/s/m", func(ctx context.Context, r *connect.Request[[]byte]) (*connect.Response[[]byte], error) {
						return connect.NewResponse(&payload), nil
					}, opts...)
				} else {
					h = connect.NewServerStreamHandler("/s/m", func(ctx context.Context, r *connect.Request[[]byte], s *connect.ServerStream[[]byte]) error {
						return s.Send(&payload)
					}, opts...)
				}
				body := []byte{1}
				if !(proto == "connect" && kind == "unary") {
					body = frame(0, body)
				}
				req := httptest.NewRequest(http.MethodPost, "/s/m", bytes.NewReader(body))
				req.ProtoMajor, req.ProtoMinor, req.Proto = 2, 0, "HTTP/2.0"
				req.Header.Set("Content-Type", ctFor(proto, kind, "raw"))
				encH, accH := encHeaderFor(proto, kind)
				req.Header.Set(accH, "identity")
				rec := httptest.NewRecorder()
				h.ServeHTTP(rec, req)
				out := rec.Body.Bytes()
				respEnc := rec.Result().Header.Get(encH)
				if proto == "connect" && kind == "unary" {
					return fmt.Sprintf("encoding=%q body-is-the-message=%v", respEnc, bytes.Equal(out, payload))
				}
				if len(out) < 5 {
					return "no envelope in the response"
				}
				n := int(out[1])<<24 | int(out[2])<<16 | int(out[3])<<8 | int(out[4])
				ok := len(out) >= 5+n && bytes.Equal(out[5:5+n], payload)
				return fmt.Sprintf("encoding=%q flags=%d body-is-the-message=%v", respEnc, out[0], ok)
			})
			want := "encoding=\"\" flags=0 body-is-the-message=true"
			if proto == "connect" && kind == "unary" {
				want = "encoding=\"\" body-is-the-message=true"
			}
			if got != want && got != strings.Replace(want, "encoding=\"\"", "encoding=\"identity\"", 1) {
				c.Fail("neg-identity-compressed", desc, got, "identity means not compressed: "+want)
			}
		}
	}
}

func streamNeg(c *Ctx) {
	if replayOp != "" {
		if strings.HasPrefix(replayOp, "neg") {
			negOp(c, replayOp)
		} else if strings.HasPrefix(replayOp, "env.") {
			envOp(c, replayOp)
		} else {
			cminOp(c, replayOp)
		}
		return
	}
	r := c.Rng
	universe := []string{"gzip", "rle", "zz", "yy"}
	protos := []string{"connect", "grpc", "grpcweb"}
	kinds := []string{"unary", "stream"}
	// handler registration orders: gzip (default) first, then any sequence of the toy names (with repeats)
	regs := []string{"gzip", "gzip,rle", "gzip,zz,rle", "gzip,rle,zz", "gzip,rle,zz,yy", "gzip,yy,rle,yy", "gzip,zz,gzip",
		// names are opaque tokens: letter case is part of the name
		"gzip,Snappy", "gzip,rle,X-Deflate,x-deflate"}
	n := 0
	for _, reg := range regs {
		// client preference lists: all permutations of subsets of the universe up to 3, plus junk
		var accepts []string
		for i := range universe {
			accepts = append(accepts, universe[i])
			for j := range universe {
				if j != i {
					accepts = append(accepts, universe[i]+","+universe[j], universe[i]+", "+universe[j])
					for k := range universe {
						if k != i && k != j {
							accepts = append(accepts, universe[i]+","+universe[j]+","+universe[k])
						}
					}
				}
			}
		}
		accepts = append(accepts, "", "identity", "br", "br,gzip", "br, zz ,rle", ",,gzip", "gzip;q=0.5", "GZIP", "identity,rle",
			// a registered name that is a prefix (or an extension) of an offered one is another name
			"rle-fast", "rle-fast,gzip", "zzz,rle", "gzip2", "gz,rle", "rl", "yy-block,zz-block",
			"Snappy", "snappy", "Snappy,gzip", "gzip,Snappy", "X-Deflate", "x-deflate,X-Deflate", "gzip;q=0", "identity, gzip;q=0", "rle;q=0,gzip")
		sents := []string{"", "identity", "gzip", "rle", "zz", "br", "GZIP", "x", "Snappy", "snappy", "X-Deflate"}
		for _, acc := range accepts {
			p, k := protos[n%3], kinds[(n/3)%2]
			n++
			sent := ""
			if r.Chance(25) {
				sent = sents[r.Intn(len(sents))]
			}
			if strings.Contains(reg, "Snappy") || strings.Contains(reg, "X-Deflate") {
				// with mixed-case names registered, also send with exactly those
				if r.Chance(40) {
					sent = []string{"Snappy", "X-Deflate", "x-deflate", "snappy"}[r.Intn(4)]
				}
			}
			negOp(c, fmt.Sprintf("neg proto=%s kind=%s reg=%s sent=%s accept=%s", p, k, reg, hx([]byte(sent)), hx([]byte(acc))))
		}
		for _, sent := range sents {
			for _, p := range protos {
				for _, k := range kinds {
					negOp(c, fmt.Sprintf("neg proto=%s kind=%s reg=%s sent=%s accept=%s", p, k, reg, hx([]byte(sent)), hx([]byte("rle,gzip"))))
				}
			}
		}
	}
	// client side: threshold
	for _, p := range protos {
		for _, k := range []string{"unary", "stream"} {
			for _, min := range []int{-1, 0, 1, 10, 100, 1024} {
				for _, size := range []int{0, 1, min - 1, min, min + 1, 2000} {
					if size < 0 {
						continue
					}
					for _, pool := range []int{0, 1} {
						cminOp(c, fmt.Sprintf("cmin pool=%d min=%d size=%d proto=%s kind=%s", pool, min, size, p, k))
					}
				}
			}
		}
	}
	poolIsolationProbe(c)
	parkedDecompressorProbe(c)
	staleAcceptProbe(c)
	halfRegisteredProbe(c)
	identityNamedPoolProbe(c)
	failingCompressorProbe(c, "neg-failed-compression-undecodable")
	hugeLimitLosslessProbe(c)
	forwardedEncodingProbe(c)
	emptyCompressedProbe(c)
}

// hugeLimitLosslessProbe: every compressed message decompresses to the original bytes - also
// when the receiver's read limit is the largest there is (nothing wraps around), on either side.
func hugeLimitLosslessProbe(c *Ctx) {
	payload := bytes.Repeat([]byte{3, 3, 3, 9}, 60)
	for _, proto := range []string{"connect", "grpc", "grpcweb"} {
		for _, kind := range []string{"unary", "server"} {
			for _, side := range []string{"handler", "client"} {
				for _, limit := range []int{math.MaxInt64, math.MaxInt64 - 1} {
					desc := fmt.Sprintf("%s %s call, rle in both directions, read limit %d on the %s", proto, kind, limit, side)
					c.Count("huge-limit-lossless-probe")
					got := safely(func() string {
						hopts := []connect.HandlerOption{connect.WithCodec(rawCodec{"raw"}), connect.WithCompression("rle", newRLEDecompressor, newRLECompressor)}
						copts := []connect.ClientOption{connect.WithCodec(rawCodec{"raw"}), connect.WithAcceptCompression("rle", newRLEDecompressor, newRLECompressor), connect.WithSendCompression("rle")}
						if side == "handler" {
							hopts = append(hopts, connect.WithReadMaxBytes(limit))
						} else {
							copts = append(copts, connect.WithReadMaxBytes(limit))
						}
						if proto == "grpc" {
							copts = append(copts, connect.WithGRPC())
						} else if proto == "grpcweb" {
							copts = append(copts, connect.WithGRPCWeb())
						}
						var seen []byte
						var h *connect.Handler
						if kind == "unary" {
							h = connect.NewUnaryHandler("/s/m", func(ctx context.Context, r *connect.Request[[]byte]) (*connect.Response[[]byte], error) {
								seen = append([]byte{}, (*r.Msg)...)
								out := append([]byte{}, payload...)
								return connect.NewResponse(&out), nil
							}, hopts...)
						} else {
							h = connect.NewServerStreamHandler("/s/m", func(ctx context.Context, r *connect.Request[[]byte], s *connect.ServerStream[[]byte]) error {
								seen = append([]byte{}, (*r.Msg)...)
								out := append([]byte{}, payload...)
								return s.Send(&out)
							}, hopts...)
						}
						srv := httptest.NewUnstartedServer(h)
						srv.EnableHTTP2 = true
						srv.StartTLS()
						defer srv.Close()
						cl := connect.NewClient[[]byte, []byte](srv.Client(), srv.URL+"/s/m", copts...)
						in := append([]byte{}, payload...)
						var back []byte
						if kind == "unary" {
							res, err := cl.CallUnary(context.Background(), connect.NewRequest(&in))
							if err != nil {
								return "call failed: " + err.Error()
							}
							back = *res.Msg
						} else {
							st, err := cl.CallServerStream(context.Background(), connect.NewRequest(&in))
							if err != nil {
								return "call failed: " + err.Error()
							}
							for st.Receive() {
								back = append([]byte{}, (*st.Msg())...)
							}
							if st.Err() != nil {
								return "stream failed: " + st.Err().Error()
							}
							st.Close()
						}
						if !bytes.Equal(seen, payload) {
							return fmt.Sprintf("the handler received %d bytes instead of the %d sent", len(seen), len(payload))
						}
						if !bytes.Equal(back, payload) {
							return fmt.Sprintf("the client received %d bytes instead of the %d sent", len(back), len(payload))
						}
						return "ok"
					})
					if got != "ok" {
						c.Fail("neg-lossless", desc, got, "a compressed message did not arrive as the original bytes")
					}
				}
			}
		}
	}
}

// forwardedEncodingProbe: a gateway-style unary handler copies the headers of an upstream
// response - Content-Encoding among them - into its own response, whose message then goes out
// uncompressed (the client advertised nothing, or the message is below compress-min-bytes): the
// response must not name an encoding its body does not have.
func forwardedEncodingProbe(c *Ctx) {
	for _, accept := range []string{"", "gzip"} {
		desc := fmt.Sprintf("unary Connect handler whose response header carries a forwarded Content-Encoding: gzip, 10-byte message, compress-min-bytes 1024, client Accept-Encoding %q", accept)
		c.Count("forwarded-encoding-probe")
		got := safely(func() string {
			h := connect.NewUnaryHandler("/s/m", func(ctx context.Context, r *connect.Request[[]byte]) (*connect.Response[[]byte], error) {
				out := bytes.Repeat([]byte{9}, 10)
				res := connect.NewResponse(&out)
				res.Header().Set("Content-Encoding", "gzip") // as copied from an upstream response
				res.Header().Set("X-Upstream", "u")
				return res, nil
			}, connect.WithCodec(rawCodec{"raw"}), connect.WithCompressMinBytes(1024))
			req := httptest.NewRequest(http.MethodPost, "/s/m", bytes.NewReader([]byte{1}))
			req.Header.Set("Content-Type", "application/raw")
			if accept != "" {
				req.Header.Set("Accept-Encoding", accept)
			}
			rec := httptest.NewRecorder()
			h.ServeHTTP(rec, req)
			enc := rec.Result().Header.Get("Content-Encoding")
			body := rec.Body.Bytes()
			plain := bytes.Equal(body, bytes.Repeat([]byte{9}, 10))
			if plain && enc != "" && enc != "identity" {
				return fmt.Sprintf("Content-Encoding: %s over the plain 10-byte message", enc)
			}
			if !plain && enc == "" {
				return "unlabelled body that is not the message"
			}
			return "ok"
		})
		if got != "ok" {
			c.Fail("cmin-header-body", desc, got, "the encoding header must describe the body")
		}
	}
}

// failingRLECompressor fails on Close for inputs of exactly 300 bytes (a quota, a broken
// dictionary): nothing compressed comes out for those.
type failingRLECompressor struct {
	rleCompressor
	n int
}

func (c *failingRLECompressor) Write(p []byte) (int, error) {
	c.n += len(p)
	return c.rleCompressor.Write(p)
}
func (c *failingRLECompressor) Reset(w io.Writer) { c.n = 0; c.rleCompressor.Reset(w) }
func (c *failingRLECompressor) Close() error {
	if c.n == 300 {
		return fmt.Errorf("compressor out of order")
	}
	return c.rleCompressor.Close()
}

// failingCompressorProbe: the handler's compressor fails. Whatever the handler then sends, every
// part of the response that is labelled compressed must be what the named algorithm produces -
// observed by a client of the same library, which must see the failure as a coded error (not a
// response it cannot decode), and on the raw response.
func failingCompressorProbe(c *Ctx, key string) {
	for _, proto := range []string{"connect", "grpc", "grpcweb"} {
		for _, kind := range []string{"unary", "server"} {
			desc := fmt.Sprintf("%s %s call, handler compressor for \"rle\" fails on the 300-byte response message, client accepts rle", proto, kind)
			c.Count("failing-compressor-probe")
			hopts := []connect.HandlerOption{connect.WithCodec(rawCodec{"raw"}),
				connect.WithCompression("rle", newRLEDecompressor, func() connect.Compressor { return &failingRLECompressor{} })}
			big := bytes.Repeat([]byte{7}, 300)
			var h *connect.Handler
			if kind == "unary" {
				h = connect.NewUnaryHandler("/s/m", func(ctx context.Context, r *connect.Request[[]byte]) (*connect.Response[[]byte], error) {
					return connect.NewResponse(&big), nil
				}, hopts...)
			} else {
				h = connect.NewServerStreamHandler("/s/m", func(ctx context.Context, r *connect.Request[[]byte], s *connect.ServerStream[[]byte]) error {
					return s.Send(&big)
				}, hopts...)
			}
			got := safely(func() string {
				srv := httptest.NewUnstartedServer(h)
				srv.EnableHTTP2 = true
				srv.StartTLS()
				defer srv.Close()
				copts := []connect.ClientOption{connect.WithCodec(rawCodec{"raw"}), connect.WithAcceptCompression("rle", newRLEDecompressor, newRLECompressor)}
				if proto == "grpc" {
					copts = append(copts, connect.WithGRPC())
				} else if proto == "grpcweb" {
					copts = append(copts, connect.WithGRPCWeb())
				}
				cl := connect.NewClient[[]byte, []byte](srv.Client(), srv.URL+"/s/m", copts...)
				var err error
				if kind == "unary" {
					_, err = cl.CallUnary(context.Background(), connect.NewRequest(&[]byte{1}))
				} else {
					var st *connect.ServerStreamForClient[[]byte]
					st, err = cl.CallServerStream(context.Background(), connect.NewRequest(&[]byte{1}))
					if err == nil {
						for st.Receive() {
						}
						err = st.Err()
						st.Close()
					}
				}
				if err == nil {
					return "ok"
				}
				return connect.CodeOf(err).String() + ": " + err.Error()
			})
			// (which code the failure is reported with is not this property's business; that the peer
			// can decode the report is)
			if got == "ok" || !strings.Contains(got, "compressor out of order") {
				c.Fail(key, desc, got, "the handler's report of its compression failure must be decodable by the peer; a response whose encoding labels do not match its bytes is not")
			}
		}
	}
}

// poolIsolationProbe: corrupt compressed calls interleaved with valid ones on one handler:
// every valid call must still see its own payload (sequentially and concurrently).
// strictDecompressor is the RLE decompressor with a conscience: once it has been handed back to
// its pool (closed, then reset to an empty source) nobody may read from it until it has been
// given a new source.
type strictDecompressor struct {
	rleDecompressor
	parked     bool
	violations *int32
}

func (d *strictDecompressor) Reset(r io.Reader) error {
	sr, isEmpty := r.(*strings.Reader)
	d.parked = isEmpty && sr.Len() == 0
	return d.rleDecompressor.Reset(r)
}

func (d *strictDecompressor) Read(p []byte) (int, error) {
	if d.parked {
		atomic.AddInt32(d.violations, 1)
	}
	return d.rleDecompressor.Read(p)
}

// parkedDecompressorProbe: a decompressor that has gone back to the pool belongs to the next
// call; the call that returned it reads from it no more - also not to measure a message it has
// already rejected (round 10, C08-mn).
func parkedDecompressorProbe(c *Ctx) {
	var violations int32
	h := connect.NewUnaryHandler("/s/m", func(ctx context.Context, r *connect.Request[[]byte]) (*connect.Response[[]byte], error) {
		return connect.NewResponse(&[]byte{1}), nil
	}, connect.WithCodec(rawCodec{"raw"}), connect.WithReadMaxBytes(64),
		connect.WithCompression("rle", func() connect.Decompressor { return &strictDecompressor{violations: &violations} }, newRLECompressor))
	for _, proto := range []string{"connect", "grpc", "grpcweb"} {
		for _, n := range []int{40, 65, 4000} {
			z := rleCompress(bytes.Repeat([]byte{5}, n))
			body := z
			if proto != "connect" {
				body = frame(1, z)
			}
			req := httptest.NewRequest(http.MethodPost, "/s/m", bytes.NewReader(body))
			req.ProtoMajor, req.ProtoMinor, req.Proto = 2, 0, "HTTP/2.0"
			req.Header.Set("Content-Type", ctFor(proto, "unary", "raw"))
			encH, _ := encHeaderFor(proto, "unary")
			req.Header.Set(encH, "rle")
			h.ServeHTTP(httptest.NewRecorder(), req)
			c.Count("parked-decompressor-probe")
		}
	}
	if v := atomic.LoadInt32(&violations); v != 0 {
		c.Fail("pool-isolation-parked-read", "unary handler with read limit 64 and a decompressor that notices reads while it is in the pool; messages of 40, 65 and 4000 bytes (compressed) in all three protocols", fmt.Sprintf("%d reads from a decompressor that had been returned to the pool", v), "a pooled decompressor is not touched by the call that returned it")
	}
}

// staleAcceptProbe: what a client advertises is what *it* can decode - also when the Request
// value it sends was sent before by a client with other algorithms (round 10, C08-mm).
func staleAcceptProbe(c *Ctx) {
	for _, proto := range []string{"connect", "grpc", "grpcweb"} {
		h := connect.NewUnaryHandler("/s/m", func(ctx context.Context, r *connect.Request[[]byte]) (*connect.Response[[]byte], error) {
			out := bytes.Repeat([]byte{7}, 64)
			return connect.NewResponse(&out), nil
		}, connect.WithCodec(rawCodec{"raw"}), connect.WithCompression("rle", newRLEDecompressor, newRLECompressor), connect.WithCompressMinBytes(0))
		desc := proto + ": one Request value sent by a client that accepts rle and gzip, then by a client that accepts gzip only"
		c.Count("stale-accept-probe")
		got := safely(func() string {
			a := connect.NewClient[[]byte, []byte](&inprocClient{h: h}, "http://h/s/m", append(protoOpts(proto), connect.WithAcceptCompression("rle", newRLEDecompressor, newRLECompressor))...)
			b := connect.NewClient[[]byte, []byte](&inprocClient{h: h}, "http://h/s/m", protoOpts(proto)...)
			req := connect.NewRequest(&[]byte{1})
			if _, err := a.CallUnary(context.Background(), req); err != nil {
				return "first call: " + err.Error()
			}
			res, err := b.CallUnary(context.Background(), req)
			if err != nil {
				return "second call: " + err.Error()
			}
			return fmt.Sprintf("second call ok, %d bytes", len(*res.Msg))
		})
		if got != "second call ok, 64 bytes" {
			c.Fail("neg-accept-stale", desc, got, "the handler answers the second client with something it can decode")
		}
	}
}

func poolIsolationProbe(c *Ctx) {
	for _, enc := range []string{"gzip", "rle"} {
		h := connect.NewUnaryHandler("/s/m", func(ctx context.Context, r *connect.Request[[]byte]) (*connect.Response[[]byte], error) {
			out := append([]byte("echo:"), (*r.Msg)...)
			return connect.NewResponse(&out), nil
		}, connect.WithCodec(rawCodec{"raw"}), connect.WithCompression("rle", newRLEDecompressor, newRLECompressor))
		call := func(payload []byte, corrupt bool) (string, bool) {
			var z []byte
			if enc == "gzip" {
				var buf bytes.Buffer
				zw := gzip.NewWriter(&buf)
				_, _ = zw.Write(payload)
				_ = zw.Close()
				z = buf.Bytes()
			} else {
				z = rleCompress(payload)
			}
			if corrupt {
				z = []byte("this is not compressed data at all")
			}
			req := httptest.NewRequest(http.MethodPost, "/s/m", bytes.NewReader(frame(1, z)))
			req.ProtoMajor, req.ProtoMinor = 2, 0
			req.Header["Content-Type"] = []string{"application/grpc-web+raw"}
			req.Header["Grpc-Encoding"] = []string{enc}
			rec := httptest.NewRecorder()
			h.ServeHTTP(rec, req)
			b := rec.Body.Bytes()
			if len(b) < 5 || b[0]&0x80 != 0 {
				return "error", false
			}
			n := int(b[1])<<24 | int(b[2])<<16 | int(b[3])<<8 | int(b[4])
			p := b[5 : 5+n]
			if b[0]&1 != 0 {
				if rec.Header().Get("Grpc-Encoding") == "gzip" {
					zr, err := gzip.NewReader(bytes.NewReader(p))
					if err != nil {
						return "bad-gzip", false
					}
					p, _ = io.ReadAll(zr)
				} else {
					p, _ = rleExpand(p, 1<<20)
				}
			}
			return string(p), string(p) == "echo:"+string(payload)
		}
		bad := 0
		for round := 0; round < 6; round++ {
			for i := 0; i < 3; i++ {
				if _, ok := call([]byte("x"), true); ok {
					bad++
				}
			}
			var wg sync.WaitGroup
			var mu sync.Mutex
			for g := 0; g < 16; g++ {
				wg.Add(1)
				go func(g int) {
					defer wg.Done()
					for k := 0; k < 8; k++ {
						payload := bytes.Repeat([]byte(fmt.Sprintf("<g%02d-k%02d>", g, k)), 40+g)
						if got, ok := call(payload, false); !ok {
							mu.Lock()
							bad++
							if bad < 3 {
								c.Fail("pool-isolation", fmt.Sprintf("%s: corrupt calls then 16x8 concurrent valid calls", enc), got[:min(len(got), 60)], "a valid call after a corrupt compressed call did not see its own payload")
							}
							mu.Unlock()
						}
					}
				}(g)
			}
			wg.Wait()
		}
		c.Count("pool-isolation-probe")
	}
}

func min(a, b int) int {
	if a < b {
		return a
	}
	return b
}

// emptyCompressedProbe (round 13, C08-ms): an empty message may travel with the compressed flag
// set (some peers flag every message of a compressed stream); it is the zero value, like the same
// empty message without the flag - also for codecs that, like JSON, cannot decode zero bytes.
func emptyCompressedProbe(c *Ctx) {
	// (a) the envelope reader itself, tied to the model (strict codec: no value encodes as zero bytes)
	z := rleCompress([]byte{5, 5, 5, 5})
	flats := [][]byte{
		frame(1, nil),
		frame(0, nil),
		append(frame(1, nil), frame(0, []byte{5})...),
		append(append(frame(0, []byte{5}), frame(1, nil)...), frame(1, z)...),
		append(append(frame(1, z), frame(1, nil)...), frame(1, nil)...),
		append(frame(1, nil), frame(2, []byte("{}"))...),
		append(frame(1, nil), frame(3, nil)...),
	}
	for _, comp := range []int{0, 1} {
		for _, flat := range flats {
			for _, tail := range []string{"eof", "ueof"} {
				op := fmt.Sprintf("env.recv comp=%d max=0 tail=%s flat=%s seg=- wd=0 strict=1", comp, tail, hx(flat))
				ans := envOp(c, op)
				c.Count("empty-compressed-env")
				if flat[0] <= 1 && bytes.Equal(flat[1:5], []byte{0, 0, 0, 0}) && !strings.HasPrefix(ans, "m:-") {
					c.Fail("neg-empty-compressed", op, ans, "an empty message (flags 0 or 1, length 0) is the zero value whatever the codec")
				}
			}
		}
	}
	// (b) a real handler with the JSON codec: [compressed flag, empty][plain "5"]
	for _, proto := range []string{"connect", "grpc", "grpcweb"} {
		var got []string
		h := connect.NewClientStreamHandler("/s/m", func(ctx context.Context, s *connect.ClientStream[wrapperspb.Int64Value]) (*connect.Response[wrapperspb.Int64Value], error) {
			for s.Receive() {
				got = append(got, fmt.Sprint(s.Msg().GetValue()))
			}
			if err := s.Err(); err != nil {
				got = append(got, "err:"+connect.CodeOf(err).String())
			}
			return connect.NewResponse(&wrapperspb.Int64Value{}), nil
		})
		desc := proto + ": client-stream handler, JSON codec, gzip announced, request [flags=1 len=0][flags=0 \"5\"]"
		c.Count("empty-compressed-handler")
		ans := safely(func() string {
			body := append(frame(1, nil), frame(0, []byte(`"5"`))...)
			req := httptest.NewRequest(http.MethodPost, "/s/m", bytes.NewReader(body))
			req.ProtoMajor, req.ProtoMinor, req.Proto = 2, 0, "HTTP/2.0"
			req.Header.Set("Content-Type", ctFor(proto, "stream", "json"))
			encH, _ := encHeaderFor(proto, "stream")
			req.Header.Set(encH, "gzip")
			h.ServeHTTP(httptest.NewRecorder(), req)
			return strings.Join(got, " ")
		})
		if ans != "0 5" {
			c.Fail("neg-empty-compressed", desc, ans, "the handler receives the zero value and then 5")
		}
	}
}
