package main

import (
	"bytes"
	"context"
	"errors"
	"fmt"
	"io"
	"math"
	"net/http"
	"net/http/httptest"
	"strconv"
	"strings"
	"unicode/utf8"

	connect "github.com/bufbuild/connect-go"
	"google.golang.org/protobuf/types/known/wrapperspb"
)

// S-req (C07): arbitrary request bodies / headers into real handlers.
//   hreq proto=P kind=unary|server|client|bidi max=N sent=HEX tmo=HEX flat=HEX tail=T seg=CUTS
//     -> pre=reject:CODE | pre=run recv=HEX,.. end=eof|CODE

func init() { register("req", "C07", streamReq) }

func responseErrorCode(proto, kind string, rec *httptest.ResponseRecorder) (int, string) {
	res := rec.Result()
	body, _ := io.ReadAll(res.Body)
	enc, _ := encHeaderFor(proto, kind)
	header := http.Header{}
	for k, v := range res.Header {
		if !strings.HasPrefix(k, http.TrailerPrefix) {
			header[k] = v
		}
	}
	r, note := canonicalResponse(proto, kind, res.StatusCode, header, res.Trailer, body, enc)
	switch {
	case proto == "connect" && kind == "unary":
		if r.status == 200 {
			return 0, note
		}
		for _, it := range r.body {
			if it.kind == "ej" {
				return it.err.code, note
			}
		}
		return -1, note + " non-200-without-error-body"
	case proto == "connect":
		ends := 0
		code := 0
		for _, it := range r.body {
			if it.kind == "end" {
				ends++
				if it.err != nil {
					code = it.err.code
				}
			}
		}
		if ends != 1 || r.status != 200 {
			note += " endstream-count"
		}
		return code, note
	}
	var statuses []string
	statuses = append(statuses, r.header["Grpc-Status"]...)
	statuses = append(statuses, r.trailer["Grpc-Status"]...)
	for _, it := range r.body {
		if it.kind == "web" {
			statuses = append(statuses, it.header["Grpc-Status"]...)
		}
	}
	if len(statuses) != 1 || r.status != 200 {
		return -1, note + " grpc-status-count"
	}
	n, err := strconv.Atoi(statuses[0])
	if err != nil {
		return -1, note + " grpc-status-not-numeric"
	}
	return n, note
}

func hreqOp(c *Ctx, op string) {
	c.Begin(op)
	a := kvArgs(strings.Fields(op))
	proto, kind := a["proto"], a["kind"]
	max := atoi(a["max"])
	sent, tmo, flat := string(unhx(a["sent"])), string(unhx(a["tmo"])), unhx(a["flat"])
	runs := 0
	var got [][]byte
	var endErr error
	ans := safely(func() string {
		opts := []connect.HandlerOption{connect.WithCodec(rawCodec{"raw"}), connect.WithCompression("rle", newRLEDecompressor, newRLECompressor), connect.WithReadMaxBytes(max)}
		var h *connect.Handler
		switch kind {
		case "unary":
			h = connect.NewUnaryHandler("/s/m", func(ctx context.Context, r *connect.Request[[]byte]) (*connect.Response[[]byte], error) {
				runs++
				got = append(got, append([]byte{}, (*r.Msg)...))
				return connect.NewResponse(&[]byte{1}), nil
			}, opts...)
		case "server":
			h = connect.NewServerStreamHandler("/s/m", func(ctx context.Context, r *connect.Request[[]byte], s *connect.ServerStream[[]byte]) error {
				runs++
				got = append(got, append([]byte{}, (*r.Msg)...))
				return nil
			}, opts...)
		case "client":
			h = connect.NewClientStreamHandler("/s/m", func(ctx context.Context, s *connect.ClientStream[[]byte]) (*connect.Response[[]byte], error) {
				runs++
				for s.Receive() {
					got = append(got, append([]byte{}, (*s.Msg())...))
				}
				endErr = s.Err()
				// a handler may well ask once more: the answer stays the same
				if s.Receive() {
					got = append(got, append([]byte("again:"), (*s.Msg())...))
				}
				if again := s.Err(); (again == nil) != (endErr == nil) {
					endErr = again
					got = append(got, []byte("end-changed"))
				}
				if endErr != nil {
					return nil, endErr
				}
				return connect.NewResponse(&[]byte{1}), nil
			}, opts...)
		default:
			h = connect.NewBidiStreamHandler("/s/m", func(ctx context.Context, s *connect.BidiStream[[]byte, []byte]) error {
				runs++
				for {
					m, err := s.Receive()
					if err != nil {
						if !errors.Is(err, io.EOF) {
							endErr = err
							return err
						}
						return nil
					}
					got = append(got, append([]byte{}, (*m)...))
				}
			}, opts...)
		}
		body := &scriptReader{chunks: segment(append([]byte(nil), flat...), parseCuts(a["seg"])), tail: tailError(a["tail"]), withData: a["wd"] == "1"}
		req := httptest.NewRequest(http.MethodPost, "/s/m", body)
		if a["cl"] == "1" {
			req.ContentLength = int64(len(flat)) // a peer that announces the length of the whole body
		}
		req.ProtoMajor, req.ProtoMinor, req.Proto = 2, 0, "HTTP/2.0"
		req.Header["Content-Type"] = []string{ctFor(proto, kind, "raw")}
		if a["ct2"] == "1" {
			req.Header["Content-Type"] = append(req.Header["Content-Type"], "text/x-second-value")
		}
		encH, accH := encHeaderFor(proto, kind)
		if sent != "" {
			req.Header[encH] = []string{sent}
		}
		if acc := string(unhx(a["acc"])); a["acc"] != "" && acc != "" {
			req.Header[accH] = []string{acc} // what the peer is willing to *receive* says nothing about what it sent
		}
		if tmo != "" {
			if proto == "connect" {
				req.Header["Connect-Timeout-Ms"] = []string{tmo}
			} else {
				req.Header["Grpc-Timeout"] = []string{tmo}
			}
		}
		rec := httptest.NewRecorder()
		h.ServeHTTP(rec, req)
		if cts := rec.Result().Header.Values("Content-Type"); len(cts) > 1 {
			c.Fail("req-malformed-response", op, strings.Join(cts, " | "), "the response carries more than one Content-Type")
		}
		code, note := responseErrorCode(proto, kind, rec)
		if strings.TrimSpace(note) != "" {
			c.Fail("req-malformed-response", op, note, "the response to a (possibly malformed) request is not well-formed for the selected protocol")
		}
		if runs == 0 {
			if code == 0 {
				c.Fail("req-norun-success", op, "0", "user code did not run, yet the response reports success")
			}
			if kind == "unary" || kind == "server" {
				// either rejected before the connection was set up, or receiving the single
				// message (and the end of the request side after it) failed
				return fmt.Sprintf("norun:%d", code)
			}
			return fmt.Sprintf("pre=reject:%d", code)
		}
		if kind == "unary" || kind == "server" {
			return fmt.Sprintf("pre=run recv=%s end=eof", hx(got[0]))
		}
		// C04 on the request side: once the handler's Receive has reported a failure, asking
		// again does not turn the request stream into one that ended cleanly
		for _, g := range got {
			if string(g) == "end-changed" || bytes.HasPrefix(g, []byte("again:")) {
				c.Fail("term-request-failure-forgotten", op, fmt.Sprintf("recv=%s", hexList(got)), "after Receive reported the end or a failure of the request stream, another Receive delivered a message or changed the verdict")
				break
			}
		}
		end := "eof"
		if endErr != nil {
			end = strconv.Itoa(int(connect.CodeOf(endErr)))
			if code != int(connect.CodeOf(endErr)) {
				c.Fail("req-error-not-reported", op, fmt.Sprintf("handler saw %v, peer got %d", endErr, code), "the receive failure did not reach the peer as that error")
			}
		}
		return fmt.Sprintf("pre=run recv=%s end=%s", hexList(got), end)
	})
	if runs > 1 {
		c.Fail("req-runs-twice", op, strconv.Itoa(runs), "user code ran more than once")
	}
	// C09 on a well-formed streaming request: every message of at most `max` bytes is accepted
	// at every position, whatever the peer announces about the body as a whole
	if (kind == "client" || kind == "bidi") && sent == "" && tmo == "" && a["ct2"] != "1" && a["tail"] == "eof" && frameBoundary(flat) {
		var want [][]byte
		plain := true
		for rest := flat; len(rest) >= 5; {
			n := int(rest[1])<<24 | int(rest[2])<<16 | int(rest[3])<<8 | int(rest[4])
			if rest[0] != 0 || (max > 0 && n > max) || (n > 0 && rest[5] == 0xEE) {
				plain = false
				break
			}
			want = append(want, rest[5:5+n])
			rest = rest[5+n:]
		}
		if plain {
			expect := fmt.Sprintf("pre=run recv=%s end=eof", hexList(want))
			c.Count("req-all-within-limit")
			if ans != expect {
				c.Fail("limit-within-rejected", op, ans, fmt.Sprintf("a well-formed request stream of %d plain messages, each within the read limit %d, was not delivered intact", len(want), max))
			}
		}
	}
	if strings.HasPrefix(ans, "PANIC") {
		c.Fail("req-panic", op, ans, "serving the request panicked")
	}
	c.Count(proto + "/" + kind + ":" + strings.SplitN(ans, " ", 2)[0])
	// the unary no-run answer is compared modulo the model's distinction pre/receive
	c.Emit(op, ans, true)
	reqOracle(c, op, a, flat, got, ans, runs)
}

// reqOracle: user code only receives messages that decoded successfully; malformed requests
// end with the documented code, never as a clean end / success.
func reqOracle(c *Ctx, op string, a map[string]string, flat []byte, got [][]byte, ans string, runs int) {
	proto, kind := a["proto"], a["kind"]
	max := atoi(a["max"])
	sent := string(unhx(a["sent"]))
	if sent != "" && sent != "identity" && sent != "rle" && sent != "gzip" {
		if runs != 0 || !strings.HasSuffix(strings.Fields(ans)[0], ":12") {
			c.Fail("req-unknown-compression", op, ans, "unknown request compression must be rejected as unimplemented without running user code")
		}
		return
	}
	// malformed timeouts are rejected as invalid_argument without running user code
	if tmo := string(unhx(a["tmo"])); tmo != "" {
		malformed := false
		if proto == "connect" {
			_, err := strconv.ParseInt(tmo, 10, 64)
			malformed = len(tmo) > 10 || err != nil
		} else if _, ok := grpcGrammatical(tmo); !ok {
			unit := tmo[len(tmo)-1]
			num := tmo[:len(tmo)-1]
			_, okUnit := grpcUnits[unit]
			n, err := strconv.ParseInt(num, 10, 64)
			malformed = !okUnit || err != nil || n < 0 || n > 99999999
		}
		if malformed && (runs != 0 || !strings.HasSuffix(strings.Fields(ans)[0], ":3")) {
			c.Fail("req-invalid-timeout", op, ans, "a malformed timeout must be rejected as invalid_argument without running user code")
		}
		if malformed {
			return
		}
	}
	if proto == "connect" && kind == "unary" {
		// the whole body is the message
		if a["tail"] != "eof" || a["ct2"] == "1" {
			return
		}
		decoded, bad := flat, ""
		if max > 0 && len(flat) > max {
			bad = "oversize"
		} else if sent == "rle" && len(flat) > 0 {
			d, ok := rleExpand(flat, 1<<22)
			if !ok {
				bad = "corrupt"
			} else if max > 0 && len(d) > max {
				bad = "oversize"
			}
			decoded = d
		}
		if bad == "" && len(decoded) > 0 && decoded[0] == 0xEE {
			bad = "undecodable"
		}
		switch {
		case bad != "" && runs > 0:
			c.Fail("req-bad-message-delivered", op, ans, "user code received a message that is "+bad)
		case bad == "" && runs > 0 && len(got) > 0 && string(got[0]) != string(decoded):
			c.Fail("req-message-altered", op, ans, "user code received a message that differs from the decoded payload")
		}
		return
	}
	// walk the frames independently
	i := 0
	rest := flat
	for len(rest) >= 5 {
		flags := rest[0]
		size := int(rest[1])<<24 | int(rest[2])<<16 | int(rest[3])<<8 | int(rest[4])
		if len(rest) < 5+size {
			break
		}
		payload := rest[5 : 5+size]
		rest = rest[5+size:]
		bad := ""
		decoded := payload
		switch {
		case flags > 1:
			bad = "special"
		case max > 0 && size > max:
			bad = "oversize"
		case flags == 1 && size > 0 && sent != "rle":
			bad = "compressed-without-encoding"
		case flags == 1 && size > 0:
			d, ok := rleExpand(payload, 1<<22)
			if !ok {
				bad = "corrupt"
			} else if max > 0 && len(d) > max {
				bad = "oversize"
			}
			decoded = d
		}
		if bad == "" && len(decoded) > 0 && decoded[0] == 0xEE {
			bad = "undecodable"
		}
		if bad == "special" && kind != "unary" && kind != "server" && runs > 0 && !(max > 0 && size > max) {
			special := int(flags) &^ 1
			defined := (proto == "connect" && special&2 != 0) || (proto == "grpcweb" && special&0x80 != 0)
			if !defined && flags&1 == 0 && !strings.HasSuffix(ans, "end=13") {
				c.Fail("req-undefined-flags", op, ans, "an envelope with a flag the selected protocol does not define must fail the call with internal, not end the stream")
			}
		}
		if bad != "" {
			if len(got) > i {
				c.Fail("req-bad-message-delivered", op, ans, "user code received a message that is "+bad)
			}
			if kind != "unary" && kind != "server" && bad != "special" && !strings.HasSuffix(ans, "end=3") && runs > 0 {
				c.Fail("req-wrong-code", op, ans, "a "+bad+" message must fail the call with invalid_argument")
			}
			return
		}
		if len(got) > i && string(got[i]) != string(decoded) {
			c.Fail("req-message-altered", op, ans, "user code received a message that differs from the decoded payload")
			return
		}
		i++
		if kind == "unary" || kind == "server" {
			// the request of these kinds is this one message; another message after it is
			// malformed framing, and the request is not to be served as if it were well-formed (F18)
			// (a terminator-flagged envelope is how some peers end a request: the protocols
			// differ there and the model decides; a second plain message is malformed for all)
			if len(rest) >= 5 && rest[0] <= 1 && runs > 0 {
				c.Fail("req-second-message-served", op, ans, "the request body carries another message after its one message, yet user code ran")
			}
			return
		}
	}
	if len(got) > i {
		c.Fail("req-phantom-message", op, ans, "user code received more messages than complete frames were sent")
	}
	if len(rest) > 0 && kind != "unary" && kind != "server" && runs > 0 && strings.HasSuffix(ans, "end=eof") {
		c.Fail("req-clean-end-mid-message", op, ans, "the request stopped inside a frame, yet user code saw a clean end of stream")
	}
}

// sealedDecompressor: the payload followed by one checksum byte (xor of the payload); like
// formats with a trailer (CRC footers), corruption is only known - and reported - at Close.
type sealedDecompressor struct {
	data []byte
	pos  int
	bad  bool
}

func (d *sealedDecompressor) Read(p []byte) (int, error) {
	if d.pos >= len(d.data) {
		return 0, io.EOF
	}
	n := copy(p, d.data[d.pos:])
	d.pos += n
	return n, nil
}
func (d *sealedDecompressor) Close() error {
	if d.bad {
		return errors.New("sealed: checksum mismatch")
	}
	return nil
}
func (d *sealedDecompressor) Reset(r io.Reader) error {
	all, err := io.ReadAll(r)
	d.pos, d.bad, d.data = 0, false, nil
	if err != nil || len(all) == 0 {
		d.bad = true
		return nil
	}
	sum := byte(0)
	for _, b := range all[:len(all)-1] {
		sum ^= b
	}
	d.data, d.bad = all[:len(all)-1], sum != all[len(all)-1]
	return nil
}

type sealedCompressor struct {
	w   io.Writer
	buf bytes.Buffer
}

func (c *sealedCompressor) Write(p []byte) (int, error) { return c.buf.Write(p) }
func (c *sealedCompressor) Close() error {
	sum := byte(0)
	for _, b := range c.buf.Bytes() {
		sum ^= b
	}
	_, err := c.w.Write(append(append([]byte{}, c.buf.Bytes()...), sum))
	return err
}
func (c *sealedCompressor) Reset(w io.Writer) { c.w = w; c.buf.Reset() }

// sealedProbe (oracle only): a compressed payload the handler's decompressor rejects - also one
// that rejects it only when it is closed - is an undecodable payload: user code does not get the
// message and the peer does not get success; the intact payload next to it is served.
func sealedProbe(c *Ctx) {
	payload := []byte{10, 20, 30, 40}
	seal := func(corrupt bool) []byte {
		sum := byte(0)
		for _, b := range payload {
			sum ^= b
		}
		if corrupt {
			sum ^= 0x55
		}
		return append(append([]byte{}, payload...), sum)
	}
	for _, proto := range []string{"connect", "grpc", "grpcweb"} {
		for _, kind := range []string{"unary", "client"} {
			for _, corrupt := range []bool{false, true} {
				var delivered [][]byte
				// (responses stay uncompressed: the probe reads them without a "sealed" decoder)
				opts := []connect.HandlerOption{connect.WithCodec(rawCodec{"raw"}), connect.WithCompressMinBytes(1 << 20), connect.WithCompression("sealed", func() connect.Decompressor { return &sealedDecompressor{} }, func() connect.Compressor { return &sealedCompressor{} })}
				var h http.Handler
				if kind == "unary" {
					h = connect.NewUnaryHandler("/s/m", func(ctx context.Context, r *connect.Request[[]byte]) (*connect.Response[[]byte], error) {
						delivered = append(delivered, append([]byte{}, (*r.Msg)...))
						return connect.NewResponse(&[]byte{1}), nil
					}, opts...)
				} else {
					h = connect.NewClientStreamHandler("/s/m", func(ctx context.Context, s *connect.ClientStream[[]byte]) (*connect.Response[[]byte], error) {
						for s.Receive() {
							delivered = append(delivered, append([]byte{}, (*s.Msg())...))
						}
						if s.Err() != nil {
							return nil, s.Err()
						}
						return connect.NewResponse(&[]byte{1}), nil
					}, opts...)
				}
				desc := fmt.Sprintf("%s %s request compressed with \"sealed\" (checksum verified at Close), corrupt=%v", proto, kind, corrupt)
				c.Count("sealed-probe")
				got := safely(func() string {
					body := seal(corrupt)
					if !(proto == "connect" && kind == "unary") {
						body = frame(1, body)
					}
					req := httptest.NewRequest(http.MethodPost, "/s/m", bytes.NewReader(body))
					req.ProtoMajor, req.ProtoMinor, req.Proto = 2, 0, "HTTP/2.0"
					req.Header.Set("Content-Type", ctFor(proto, kind, "raw"))
					encH, _ := encHeaderFor(proto, kind)
					req.Header.Set(encH, "sealed")
					rec := httptest.NewRecorder()
					h.ServeHTTP(rec, req)
					code, _ := responseErrorCode(proto, kind, rec)
					return fmt.Sprintf("delivered=%d code=%d", len(delivered), code)
				})
				if !corrupt && got != "delivered=1 code=0" {
					c.Fail("req-message-altered", desc, got, "an intact compressed message was not served")
				}
				if corrupt && (strings.HasPrefix(got, "delivered=1") || strings.HasSuffix(got, "code=0")) {
					c.Fail("req-bad-message-delivered", desc, got, "a payload the decompressor rejects reached user code or was answered with success")
				}
			}
		}
	}
}

// nilConstructorProbe (F22): WithCompression with nil constructors is documented as a no-op. A
// handler configured that way must treat the name as unknown - reject it as unimplemented, never
// panic inside a pool whose constructors are nil.
func nilConstructorProbe(c *Ctx) {
	for _, proto := range []string{"connect", "grpc", "grpcweb"} {
		for _, kind := range []string{"unary", "client"} {
			for _, how := range []string{"sent", "accepted"} {
				runs := 0
				opts := []connect.HandlerOption{connect.WithCodec(rawCodec{"raw"}), connect.WithCompression("zz", nil, nil), connect.WithCompressMinBytes(0)}
				var h http.Handler
				if kind == "unary" {
					h = connect.NewUnaryHandler("/s/m", func(ctx context.Context, r *connect.Request[[]byte]) (*connect.Response[[]byte], error) {
						runs++
						return connect.NewResponse(&[]byte{1, 2, 3}), nil
					}, opts...)
				} else {
					h = connect.NewClientStreamHandler("/s/m", func(ctx context.Context, s *connect.ClientStream[[]byte]) (*connect.Response[[]byte], error) {
						runs++
						for s.Receive() {
						}
						return connect.NewResponse(&[]byte{1, 2, 3}), s.Err()
					}, opts...)
				}
				desc := fmt.Sprintf("%s %s handler with WithCompression(\"zz\", nil, nil); the request names zz as %s", proto, kind, how)
				c.Begin(desc)
				c.Count("nil-constructor-probe")
				got := safely(func() string {
					body := []byte{9, 9, 9}
					fl := byte(0)
					if how == "sent" {
						fl = 1
					}
					if !(proto == "connect" && kind == "unary") {
						body = frame(fl, body)
					}
					req := httptest.NewRequest(http.MethodPost, "/s/m", bytes.NewReader(body))
					req.ProtoMajor, req.ProtoMinor, req.Proto = 2, 0, "HTTP/2.0"
					req.Header.Set("Content-Type", ctFor(proto, kind, "raw"))
					encH, accH := encHeaderFor(proto, kind)
					if how == "sent" {
						req.Header.Set(encH, "zz")
					} else {
						req.Header.Set(accH, "zz")
					}
					rec := httptest.NewRecorder()
					h.ServeHTTP(rec, req)
					code, _ := responseErrorCode(proto, kind, rec)
					respEnc := rec.Result().Header.Get(encH)
					return fmt.Sprintf("runs=%d code=%d response-encoding=%q", runs, code, respEnc)
				})
				want := "runs=0 code=12 response-encoding=\"\""
				if how == "accepted" {
					want = "runs=1 code=0 response-encoding=\"\""
				}
				if got != want {
					c.Fail("req-nil-constructors", desc, got, "an algorithm registered with nil constructors is not registered at all: "+want)
				}
			}
		}
	}
}

// invalidUTF8PayloadProbe (F23): a JSON payload that is not valid UTF-8 is an undecodable payload
// like any other: invalid_argument in a well-formed response. (The decoder's complaint quotes the
// offending bytes, so the *error text* is not valid UTF-8 either - which must not cost the error
// its code or the response its shape.)
func invalidUTF8PayloadProbe(c *Ctx) {
	// the model's utf8.Valid / strings.ToValidUTF8 against Go's, on the byte strings that matter
	// here: well-formed runes of every length, every kind of ill-formed sequence, runs of them
	u8 := func(b []byte) {
		op := "u8 " + hx(b)
		c.Begin(op)
		v := 0
		if utf8.Valid(b) {
			v = 1
		}
		c.Emit(op, fmt.Sprintf("valid=%d fixed=%s", v, hx([]byte(strings.ToValidUTF8(string(b), "\uFFFD")))), true)
	}
	pieces := [][]byte{{'a'}, {0x7f}, {0xc2, 0x80}, {0xdf, 0xbf}, {0xe0, 0xa0, 0x80}, {0xed, 0x9f, 0xbf}, {0xee, 0x80, 0x80}, {0xef, 0xbf, 0xbd}, {0xf0, 0x90, 0x80, 0x80}, {0xf4, 0x8f, 0xbf, 0xbf},
		{0x80}, {0xbf}, {0xc0, 0x80}, {0xc1, 0xbf}, {0xc2}, {0xe0, 0x9f, 0xbf}, {0xe0, 0xa0}, {0xed, 0xa0, 0x80}, {0xf0, 0x8f, 0xbf, 0xbf}, {0xf0, 0x90, 0x80}, {0xf4, 0x90, 0x80, 0x80}, {0xf5, 0x80, 0x80, 0x80}, {0xff}, {0xfe}}
	u8(nil)
	for _, p := range pieces {
		u8(p)
		for _, q := range pieces {
			u8(append(append([]byte{}, p...), q...))
		}
	}
	nr := 300
	if c.Thorough() {
		nr = 20000
	}
	for i := 0; i < nr; i++ {
		var b []byte
		for k := c.Rng.Intn(6); k >= 0; k-- {
			if c.Rng.Chance(70) {
				b = append(b, pieces[c.Rng.Intn(len(pieces))]...)
			} else {
				b = append(b, c.Rng.Bytes(1+c.Rng.Intn(3))...)
			}
		}
		u8(b)
	}
	for _, proto := range []string{"connect", "grpc", "grpcweb"} {
		for _, kind := range []string{"unary", "client"} {
			for _, payload := range []string{"\xff", "{\"value\":\"\xff\xfe\"}", "{\"value\":\xff}"} {
				runs := 0
				var h http.Handler
				if kind == "unary" {
					h = connect.NewUnaryHandler("/s/m", func(ctx context.Context, r *connect.Request[wrapperspb.StringValue]) (*connect.Response[wrapperspb.StringValue], error) {
						runs++
						return connect.NewResponse(&wrapperspb.StringValue{}), nil
					})
				} else {
					h = connect.NewClientStreamHandler("/s/m", func(ctx context.Context, s *connect.ClientStream[wrapperspb.StringValue]) (*connect.Response[wrapperspb.StringValue], error) {
						runs++
						for s.Receive() {
						}
						if s.Err() != nil {
							return nil, s.Err()
						}
						return connect.NewResponse(&wrapperspb.StringValue{}), nil
					})
				}
				desc := fmt.Sprintf("%s %s handler, JSON codec, payload %q", proto, kind, payload)
				c.Begin(desc)
				c.Count("invalid-utf8-payload-probe")
				got := safely(func() string {
					body := []byte(payload)
					if !(proto == "connect" && kind == "unary") {
						body = frame(0, body)
					}
					req := httptest.NewRequest(http.MethodPost, "/s/m", bytes.NewReader(body))
					req.ProtoMajor, req.ProtoMinor, req.Proto = 2, 0, "HTTP/2.0"
					req.Header.Set("Content-Type", ctFor(proto, kind, "json"))
					rec := httptest.NewRecorder()
					h.ServeHTTP(rec, req)
					code, note := responseErrorCode(proto, kind, rec)
					return fmt.Sprintf("code=%d malformed=%q", code, strings.TrimSpace(note))
				})
				if got != "code=3 malformed=\"\"" {
					c.Fail("req-invalid-utf8-payload", desc, got, "an undecodable payload must reach the peer as invalid_argument in a response that is well-formed for the protocol")
				}
			}
		}
	}
}

// declaredLengthProbe: Content-Length is what the peer *says*. A unary Connect request that
// declares an absurd length and sends two bytes is served (or refused) like any other two-byte
// request - the declaration sizes nothing (round 9, C07-ml).
func declaredLengthProbe(c *Ctx) {
	for _, declared := range []int64{1 << 62, 1<<63 - 1} {
		for _, max := range []int{0, 1 << 20} {
			runs := 0
			h := connect.NewUnaryHandler("/s/m", func(ctx context.Context, r *connect.Request[[]byte]) (*connect.Response[[]byte], error) {
				runs++
				return connect.NewResponse(&[]byte{1}), nil
			}, connect.WithCodec(rawCodec{"raw"}), connect.WithReadMaxBytes(max))
			desc := fmt.Sprintf("unary Connect request declaring Content-Length %d with a 2-byte body, handler read limit %d", declared, max)
			c.Begin(desc)
			c.Count("declared-length-probe")
			got := safely(func() string {
				req := httptest.NewRequest(http.MethodPost, "/s/m", strings.NewReader("ab"))
				req.ContentLength = declared
				req.Header.Set("Content-Length", strconv.FormatInt(declared, 10))
				req.Header.Set("Content-Type", "application/raw")
				rec := httptest.NewRecorder()
				h.ServeHTTP(rec, req)
				code, note := responseErrorCode("connect", "unary", rec)
				return fmt.Sprintf("runs=%d code=%d malformed=%q", runs, code, strings.TrimSpace(note))
			})
			if got != "runs=1 code=0 malformed=\"\"" {
				c.Fail("req-declared-length", desc, got, "the request is served from the bytes that arrive, without panicking: runs=1 code=0")
			}
		}
	}
}

// codingCodec is a raw codec whose Unmarshal reports its failures as *connect.Error values with a
// code of its own (a codec written by somebody who wraps every error they return).
type codingCodec struct{ rawCodec }

func (c codingCodec) Unmarshal(data []byte, msg any) error {
	if err := c.rawCodec.Unmarshal(data, msg); err != nil {
		return connect.NewError(connect.CodeInternal, err)
	}
	return nil
}

// codedCodecErrorProbe (C07, oracle only): an undecodable payload reaches the peer as
// invalid_argument - whatever the codec calls its own failure (round 11, C07-mp: a coded error
// from the codec passed through with the codec's code).
func codedCodecErrorProbe(c *Ctx) {
	for _, proto := range []string{"connect", "grpc", "grpcweb"} {
		for _, kind := range []string{"unary", "client"} {
			runs := 0
			opts := []connect.HandlerOption{connect.WithCodec(codingCodec{rawCodec{"raw"}})}
			var h http.Handler
			if kind == "unary" {
				h = connect.NewUnaryHandler("/s/m", func(ctx context.Context, r *connect.Request[[]byte]) (*connect.Response[[]byte], error) {
					runs++
					return connect.NewResponse(&[]byte{1}), nil
				}, opts...)
			} else {
				h = connect.NewClientStreamHandler("/s/m", func(ctx context.Context, s *connect.ClientStream[[]byte]) (*connect.Response[[]byte], error) {
					for s.Receive() {
						runs++
					}
					return connect.NewResponse(&[]byte{1}), s.Err()
				}, opts...)
			}
			desc := fmt.Sprintf("%s %s handler whose codec reports an undecodable payload as a *connect.Error with code internal", proto, kind)
			c.Begin(desc)
			c.Count("coded-codec-error-probe")
			got := safely(func() string {
				body := []byte{0xEE, 1, 2}
				if !(proto == "connect" && kind == "unary") {
					body = frame(0, body)
				}
				req := httptest.NewRequest(http.MethodPost, "/s/m", bytes.NewReader(body))
				req.ProtoMajor, req.ProtoMinor, req.Proto = 2, 0, "HTTP/2.0"
				req.Header.Set("Content-Type", ctFor(proto, kind, "raw"))
				rec := httptest.NewRecorder()
				h.ServeHTTP(rec, req)
				code, note := responseErrorCode(proto, kind, rec)
				return fmt.Sprintf("delivered=%d code=%d malformed=%q", runs, code, strings.TrimSpace(note))
			})
			if got != "delivered=0 code=3 malformed=\"\"" {
				c.Fail("req-undecodable-code", desc, got, "an undecodable payload reaches the peer as invalid_argument in a well-formed response")
			}
		}
	}
}

// freshPoolProbe: the very first compressed request a handler sees is not compressed data at
// all (a fresh decompressor, never successfully reset): invalid_argument in a well-formed
// response, no panic - with the built-in gzip too (round 10, C07-mm).
func freshPoolProbe(c *Ctx) {
	for _, proto := range []string{"connect", "grpc", "grpcweb"} {
		for _, kind := range []string{"unary", "client"} {
			for _, enc := range []string{"gzip", "rle"} {
				runs := 0
				opts := []connect.HandlerOption{connect.WithCodec(rawCodec{"raw"}), connect.WithCompression("rle", newRLEDecompressor, newRLECompressor)}
				var h http.Handler
				if kind == "unary" {
					h = connect.NewUnaryHandler("/s/m", func(ctx context.Context, r *connect.Request[[]byte]) (*connect.Response[[]byte], error) {
						runs++
						return connect.NewResponse(&[]byte{1}), nil
					}, opts...)
				} else {
					h = connect.NewClientStreamHandler("/s/m", func(ctx context.Context, s *connect.ClientStream[[]byte]) (*connect.Response[[]byte], error) {
						for s.Receive() {
							runs++
						}
						return connect.NewResponse(&[]byte{1}), s.Err()
					}, opts...)
				}
				desc := fmt.Sprintf("fresh %s %s handler; its first request says %s and carries bytes that are no %s at all", proto, kind, enc, enc)
				c.Begin(desc)
				c.Count("fresh-pool-probe")
				got := safely(func() string {
					body := []byte("this is definitely not compressed data")
					if enc == "rle" {
						body = []byte{0, 7, 0} // a zero count and a dangling byte
					}
					if !(proto == "connect" && kind == "unary") {
						body = frame(1, body)
					}
					req := httptest.NewRequest(http.MethodPost, "/s/m", bytes.NewReader(body))
					req.ProtoMajor, req.ProtoMinor, req.Proto = 2, 0, "HTTP/2.0"
					req.Header.Set("Content-Type", ctFor(proto, kind, "raw"))
					encH, _ := encHeaderFor(proto, kind)
					req.Header.Set(encH, enc)
					rec := httptest.NewRecorder()
					h.ServeHTTP(rec, req)
					code, note := responseErrorCode(proto, kind, rec)
					return fmt.Sprintf("delivered=%d code=%d malformed=%q", runs, code, strings.TrimSpace(note))
				})
				if got != "delivered=0 code=3 malformed=\"\"" {
					c.Fail("req-fresh-pool", desc, got, "an undecodable payload reaches the peer as invalid_argument in a well-formed response, without a panic")
				}
			}
		}
	}
}

// unofferedEncodingProbe: a response is compressed only with an algorithm the peer named - as a
// whole token of its accept list, not as a substring of one (round 10, C05-mn).
func unofferedEncodingProbe(c *Ctx) {
	for _, proto := range []string{"connect", "grpc", "grpcweb"} {
		for _, kind := range []string{"unary", "server"} {
			for _, accept := range []string{"rle-x, br", "x-rle", "prle, rlex", "brle,zz"} {
				opts := []connect.HandlerOption{connect.WithCodec(rawCodec{"raw"}), connect.WithCompression("rle", newRLEDecompressor, newRLECompressor), connect.WithCompressMinBytes(0)}
				var h http.Handler
				big := bytes.Repeat([]byte{7}, 64)
				if kind == "unary" {
					h = connect.NewUnaryHandler("/s/m", func(ctx context.Context, r *connect.Request[[]byte]) (*connect.Response[[]byte], error) {
						return connect.NewResponse(&big), nil
					}, opts...)
				} else {
					h = connect.NewServerStreamHandler("/s/m", func(ctx context.Context, r *connect.Request[[]byte], s *connect.ServerStream[[]byte]) error {
						return s.Send(&big)
					}, opts...)
				}
				body := []byte{1}
				if !(proto == "connect" && kind == "unary") {
					body = frame(0, body)
				}
				req := httptest.NewRequest(http.MethodPost, "/s/m", bytes.NewReader(body))
				req.ProtoMajor, req.ProtoMinor, req.Proto = 2, 0, "HTTP/2.0"
				req.Header.Set("Content-Type", ctFor(proto, kind, "raw"))
				encH, accH := encHeaderFor(proto, kind)
				req.Header.Set(accH, accept)
				rec := httptest.NewRecorder()
				h.ServeHTTP(rec, req)
				desc := fmt.Sprintf("%s %s handler with gzip and rle; the peer accepts %q", proto, kind, accept)
				c.Count("unoffered-encoding-probe")
				if enc := rec.Result().Header.Get(encH); enc != "" && enc != "identity" {
					c.Fail("wire-unoffered-encoding", desc, "response encoding "+enc, "the response names an algorithm the peer did not offer")
				}
			}
		}
	}
}

func streamReq(c *Ctx) {
	if strings.HasPrefix(replayOp, "u8 ") {
		invalidUTF8PayloadProbe(c) // the u8 operations are emitted there
		return
	}
	if replayOp != "" {
		hreqOp(c, replayOp)
		return
	}
	sealedProbe(c)
	nilConstructorProbe(c)
	freshPoolProbe(c)
	codedCodecErrorProbe(c)
	unofferedEncodingProbe(c)
	declaredLengthProbe(c)
	invalidUTF8PayloadProbe(c)
	r := c.Rng
	protos := []string{"connect", "grpc", "grpcweb"}
	kinds := []string{"client", "bidi", "unary", "server"}
	n := 60
	if c.Thorough() {
		n = 2500
	}
	specials := [][]byte{[]byte("{}"), []byte("a: b\r\n"), []byte("x")}
	for _, proto := range protos {
		for _, kind := range kinds {
			if !(proto == "connect" && kind == "unary") {
				for _, sent := range []string{"", "identity"} {
					for _, acc := range []string{"rle", "gzip,rle", ""} {
						body := append(frame(1, rleCompress([]byte{4, 4, 4, 4})), frame(0, []byte{2})...)
						hreqOp(c, fmt.Sprintf("hreq proto=%s kind=%s max=0 sent=%s tmo=- flat=%s tail=eof seg=- acc=%s", proto, kind, hx([]byte(sent)), hx(body), hx([]byte(acc))))
					}
				}
				for _, fl := range []byte{2, 4, 8, 64, 128, 3, 129} {
					for _, sent := range []string{"", "rle"} {
						hreqOp(c, fmt.Sprintf("hreq proto=%s kind=%s max=0 sent=%s tmo=- flat=%s tail=eof seg=-", proto, kind, hx([]byte(sent)), hx(frame(fl, nil))))
						hreqOp(c, fmt.Sprintf("hreq proto=%s kind=%s max=0 sent=%s tmo=- flat=%s tail=eof seg=-", proto, kind, hx([]byte(sent)), hx(append(frame(0, []byte{1}), append(frame(fl, nil), frame(0, []byte{2})...)...))))
					}
				}
			}
			// envelopes with protocol-specific flags are subject to the read limit like any other:
			// a peer cannot make the receiver buffer what it would not accept as a message
			if !(proto == "connect" && kind == "unary") {
				for _, fl := range []byte{2, 0x80, 3, 0x81, 4, 0x40} {
					for _, n := range []int{9, 200} {
						flat := append(frame(0, []byte{1}), frame(fl, bytes.Repeat([]byte{'x'}, n))...)
						hreqOp(c, fmt.Sprintf("hreq proto=%s kind=%s max=8 sent=- tmo=- flat=%s tail=eof seg=-", proto, kind, hx(flat)))
					}
				}
			}
			// the end of the body as an error that *wraps* io.EOF: at a boundary, inside a prefix,
			// inside a payload - the same verdicts as for io.EOF itself (round 10, C04-mn)
			if !(proto == "connect" && kind == "unary") {
				one := frame(0, []byte{1, 2, 3})
				for _, flat := range [][]byte{one, append(append([]byte{}, one...), 0), append(append([]byte{}, one...), 0, 0, 0), append(append([]byte{}, one...), 0, 0, 0, 0), append(append([]byte{}, one...), 0, 0, 0, 0, 9, 1), one[:7], {0, 0}} {
					hreqOp(c, fmt.Sprintf("hreq proto=%s kind=%s max=0 sent=- tmo=- flat=%s tail=weof seg=-", proto, kind, hx(flat)))
				}
			}
			for _, sent := range []string{"gz\xffip", "\xc3\x28"} {
				body := []byte{1, 2}
				if !(proto == "connect" && kind == "unary") {
					body = frame(0, body)
				}
				hreqOp(c, fmt.Sprintf("hreq proto=%s kind=%s max=0 sent=%s tmo=- flat=%s tail=eof seg=-", proto, kind, hx([]byte(sent)), hx(body)))
			}
			// the largest limits there are, with plain, compressed and undecodable payloads:
			// nothing wraps around, the message arrives as sent or is rejected
			for _, max := range []int{math.MaxInt64, math.MaxInt64 - 1} {
				for _, sent := range []string{"", "rle"} {
					for _, p := range [][]byte{{1, 2, 3}, {0xEE, 1}, bytes.Repeat([]byte{5}, 40)} {
						wire := p
						fl := byte(0)
						if sent == "rle" {
							wire, fl = rleCompress(p), 1
						}
						flat := wire
						if !(proto == "connect" && kind == "unary") {
							flat = append(frame(fl, wire), frame(fl, wire)...)
						}
						hreqOp(c, fmt.Sprintf("hreq proto=%s kind=%s max=%d sent=%s tmo=- flat=%s tail=eof seg=-", proto, kind, max, hx([]byte(sent)), hx(flat)))
					}
				}
			}
			for i := 0; i < n; i++ {
				sent := []string{"", "", "", "rle", "rle", "identity", "br", "zz"}[r.Intn(8)]
				if r.Chance(6) { // names with bytes that are not UTF-8: still just unknown names
					sent = []string{"gz\xffip", "\xc3\x28", "\x80zz", "br\xfe"}[r.Intn(4)]
				}
				comp := sent == "rle"
				max := []int{0, 0, 0, 8, 64}[r.Intn(5)]
				if r.Chance(8) { // the largest limits there are: nothing may wrap around
					max = []int{math.MaxInt64, math.MaxInt64 - 1, 1 << 32, math.MaxInt32}[r.Intn(4)]
				}
				var flat []byte
				if proto == "connect" && kind == "unary" {
					p := genPayload(r, 80)
					if comp {
						p = rleCompress(p)
						if r.Chance(10) {
							p = []byte{0, 1, 2} // corrupt
						}
					}
					flat = p
				} else {
					flat, _, _ = genBody(r, comp, 4, 70)
					if (kind == "unary" || kind == "server") && r.Chance(60) {
						// the well-formed shape of these requests: exactly one message
						p := genPayload(r, 70)
						if comp && r.Chance(50) {
							flat = frame(1, rleCompress(p))
						} else {
							flat = frame(0, p)
						}
					}
					if !comp && r.Chance(15) { // compressed flag although no encoding was negotiated
						flat = append(flat, frame(1, rleCompress([]byte{4, 4, 4}))...)
					}
					if r.Chance(30) { // a terminator / undefined flags inside a request
						fl := []byte{2, 3, 128, 129, 4, 64, 130, 8}[r.Intn(8)]
						p := specials[r.Intn(len(specials))]
						if r.Chance(35) {
							p = nil // a flagged envelope of length zero is still not a message
						}
						if fl&1 != 0 && len(p) > 0 {
							p = rleCompress(p)
						}
						flat = append(flat, frame(fl, p)...)
						flat = append(flat, frame(0, []byte{9})...)
					}
					if r.Chance(20) && len(flat) > 0 { // truncate
						flat = flat[:r.Intn(len(flat))]
					}
					if r.Chance(10) { // lying prefix
						flat = append(flat, envPrefix(0, 1<<20)...)
						flat = append(flat, 1, 2, 3)
					}
				}
				tail := []string{"eof", "eof", "eof", "ueof", "err"}[r.Intn(5)]
				tmo := ""
				if r.Chance(15) {
					if proto == "connect" {
						tmo = []string{"5000", "abc", "99999999999", "-5", "", "0", "-0", "+5000", "00000000100", "+1234567890", "-9300000000000", "0000000000000000000000000000005"}[r.Intn(12)]
					} else {
						tmo = []string{"5S", "5", "S", "999999999S", "-1S", "5x", "100m", "0S", "0n", "00000000H"}[r.Intn(10)]
					}
				}
				cuts := randomCuts(r, len(flat), r.Intn(4))
				flags := ""
				if r.Chance(35) && tail == "eof" {
					// (with a failing transport, whether a body that is also over the limit is reported as
					// too large or as unreadable depends on when the failure is reported: both are errors,
					// the model does not choose)
					flags += " wd=1"
				}
				if r.Chance(35) {
					flags += " cl=1"
				}
				if r.Chance(20) {
					flags += " ct2=1"
				}
				if proto == "connect" && kind == "unary" && max > 0 && max < 1<<20 && r.Chance(50) {
					// bodies of exactly max-1, max, max+1 bytes
					flat = bytes.Repeat([]byte{7}, max-1+r.Intn(3))
					sent, comp = "", false
				}
				acc := ""
				if r.Chance(40) {
					acc = []string{"rle", "gzip", "rle,gzip", "gzip, rle", "zz"}[r.Intn(5)]
				}
				hreqOp(c, fmt.Sprintf("hreq proto=%s kind=%s max=%d sent=%s tmo=%s flat=%s tail=%s seg=%s acc=%s", proto, kind, max, hx([]byte(sent)), hx([]byte(tmo)), hx(flat), tail, showCuts(cuts), hx([]byte(acc)))+flags)
			}
		}
	}
}
