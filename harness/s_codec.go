package main

import (
	"bytes"
	"context"
	"encoding/base64"
	"errors"
	"fmt"
	"io"
	"net/http"
	"net/http/httptest"
	"regexp"
	"strconv"
	"strings"
	"sync"

	connect "github.com/bufbuild/connect-go"
	"google.golang.org/protobuf/types/known/emptypb"
)

// S-codec (C18): the small wire codecs — exported Code methods, binary-header helpers,
// percent-encoding (pinned internals through the verif hook), code->HTTP status (observed
// through a real unary Connect handler) and HTTP->code (observed through real clients).

func init() { register("codec", "C18", streamCodec) }

var codeNumeric = regexp.MustCompile(`^code_[+-]?[0-9]+$`)

var definedNames = map[string]bool{
	"canceled": true, "unknown": true, "invalid_argument": true, "deadline_exceeded": true,
	"not_found": true, "already_exists": true, "permission_denied": true, "resource_exhausted": true,
	"failed_precondition": true, "aborted": true, "out_of_range": true, "unimplemented": true,
	"internal": true, "unavailable": true, "data_loss": true, "unauthenticated": true,
}

type staticClient struct {
	status  int
	header  http.Header
	trailer http.Header
	body    []byte
}

func (s *staticClient) Do(req *http.Request) (*http.Response, error) {
	go func() { _, _ = io.Copy(io.Discard, req.Body); _ = req.Body.Close() }()
	h := s.header.Clone()
	if h == nil {
		h = http.Header{}
	}
	return &http.Response{
		StatusCode: s.status, Status: strconv.Itoa(s.status) + " " + http.StatusText(s.status),
		Proto: "HTTP/2.0", ProtoMajor: 2, Header: h, Trailer: s.trailer.Clone(),
		Body: io.NopCloser(bytes.NewReader(s.body)), Request: req,
	}, nil
}

func codecOp(c *Ctx, op string) {
	f := strings.Fields(op)
	nontrivial := true
	ans := safely(func() string {
		switch f[0] {
		case "code.str":
			n, _ := strconv.ParseUint(f[1], 10, 32)
			code := connect.Code(n)
			text, err := code.MarshalText()
			if err != nil {
				return "err"
			}
			if string(text) != code.String() {
				c.Fail("code-marshal-string", op, string(text), "MarshalText differs from String")
			}
			var back connect.Code
			if err := back.UnmarshalText(text); err != nil || back != code {
				c.Fail("code-roundtrip", op, fmt.Sprintf("%q -> %v %v", text, back, err), "text form of the code does not round-trip")
			}
			return hx(text)
		case "code.parse":
			data := unhx(f[1])
			var code connect.Code
			if err := code.UnmarshalText(data); err != nil {
				return "err"
			}
			if !definedNames[string(data)] && !codeNumeric.Match(data) {
				c.Fail("code-accepts-garbage", op, fmt.Sprint(uint32(code)), "text that is neither a defined name nor code_<number> was accepted")
			}
			return fmt.Sprintf("ok %d", uint32(code))
		case "code.http":
			n, _ := strconv.ParseUint(f[1], 10, 32)
			status := connectStatusFor(connect.Code(n))
			if status < 400 || status > 599 {
				c.Fail("code-http-range", op, strconv.Itoa(status), "code maps to an HTTP status outside 4xx/5xx")
			}
			return strconv.Itoa(status)
		case "http.code.connect", "http.code.grpc":
			n, _ := strconv.Atoi(f[1])
			code := clientCodeForStatus(f[0] == "http.code.grpc", n)
			if code == 0 {
				c.Fail("http-code-zero", op, "0", "non-200 HTTP status produced the zero code")
			}
			return strconv.Itoa(int(code))
		case "pct.enc":
			data := unhx(f[1])
			enc := connect.VerifGRPCPercentEncode(string(data))
			for i := 0; i < len(enc); i++ {
				if enc[i] < 0x20 || enc[i] > 0x7e {
					c.Fail("pct-unprintable", op, hx([]byte(enc)), "percent-encoding emitted a non-printable byte")
					break
				}
			}
			if dec := connect.VerifGRPCPercentDecode(enc); dec != string(data) {
				c.Fail("pct-roundtrip", op, hx([]byte(dec)), "percent-encoding does not round-trip")
			}
			return hx([]byte(enc))
		case "pct.dec":
			return hx([]byte(connect.VerifGRPCPercentDecode(string(unhx(f[1])))))
		case "b64.enc":
			data := unhx(f[1])
			enc := connect.EncodeBinaryHeader(data)
			dec, err := connect.DecodeBinaryHeader(enc)
			if err != nil || !bytes.Equal(dec, data) {
				c.Fail("b64-roundtrip", op, hx(dec), "binary header does not round-trip")
			}
			dec, err = connect.DecodeBinaryHeader(base64.StdEncoding.EncodeToString(data))
			if err != nil || !bytes.Equal(dec, data) {
				c.Fail("b64-padded", op, hx(dec), "padded binary header is not accepted")
			}
			return hx([]byte(enc))
		case "b64.dec":
			dec, err := connect.DecodeBinaryHeader(string(unhx(f[1])))
			if err != nil {
				return "err"
			}
			return "ok " + hx(dec)
		}
		return "bad-op"
	})
	if strings.HasPrefix(ans, "PANIC") {
		c.Fail("panic", op, ans, "operation panicked")
	}
	c.Count(f[0])
	c.Emit(op, ans, nontrivial)
}

// connectStatusFor observes connectCodeToHTTP through a real unary Connect handler.
func connectStatusFor(code connect.Code) int {
	h := connect.NewUnaryHandler("/s/m", func(context.Context, *connect.Request[emptypb.Empty]) (*connect.Response[emptypb.Empty], error) {
		return nil, connect.NewError(code, errors.New("x"))
	})
	req := httptest.NewRequest(http.MethodPost, "/s/m", strings.NewReader("{}"))
	req.Header.Set("Content-Type", "application/json")
	rec := httptest.NewRecorder()
	h.ServeHTTP(rec, req)
	return rec.Code
}

// clientCodeForStatus observes connectHTTPToCode / grpcHTTPToCode through a real client.
func clientCodeForStatus(grpc bool, status int) connect.Code {
	opts := []connect.ClientOption{}
	ct := "application/proto"
	if grpc {
		opts = append(opts, connect.WithGRPC())
		ct = "application/grpc"
	}
	cl := connect.NewClient[emptypb.Empty, emptypb.Empty](&staticClient{status: status, header: http.Header{"Content-Type": {ct}}}, "http://h/s/m", opts...)
	_, err := cl.CallUnary(context.Background(), connect.NewRequest(&emptypb.Empty{}))
	if err == nil {
		return 0
	}
	return connect.CodeOf(err)
}

// allCodes: every one of the 2^32 code values, on all cores: String() against the closed form
// (name table or "code_" + decimal) and the text round trip.
func allCodes(c *Ctx) {
	names := map[uint32]string{}
	for name := range definedNames {
		var code connect.Code
		_ = code.UnmarshalText([]byte(name))
		names[uint32(code)] = name
	}
	const workers = 16
	var wg sync.WaitGroup
	var mu sync.Mutex
	bad := 0
	for w := 0; w < workers; w++ {
		wg.Add(1)
		go func(w int) {
			defer wg.Done()
			lo := uint64(w) << 28
			hi := lo + 1<<28
			var buf [24]byte
			for v := lo; v < hi; v++ {
				code := connect.Code(uint32(v))
				want, ok := names[uint32(v)]
				var text []byte
				if ok {
					text = []byte(want)
				} else {
					text = append(buf[:0], "code_"...)
					text = strconv.AppendUint(text, v, 10)
				}
				got := code.String()
				var back connect.Code
				err := back.UnmarshalText(text)
				if got != string(text) || err != nil || back != code {
					mu.Lock()
					if bad < 5 {
						c.Fail("code-roundtrip", fmt.Sprintf("code.str %d", v), got, "text form of the code does not round-trip (exhaustive sweep of all 2^32 codes)")
					}
					bad++
					mu.Unlock()
				}
			}
		}(w)
	}
	wg.Wait()
	c.Count("all-2^32-codes")
	c.Note("all 2^32 code values enumerated: String() against the closed form and UnmarshalText(MarshalText(c)) = c; %d failures", bad)
}

func streamCodec(c *Ctx) {
	if replayOp != "" {
		codecOp(c, replayOp)
		return
	}
	r := c.Rng
	// --- codes ---
	maxSeq := 70000
	for n := 0; n <= maxSeq; n++ {
		codecOp(c, fmt.Sprintf("code.str %d", n))
	}
	for k := 0; k < 32; k++ {
		for _, d := range []int64{-1, 0, 1} {
			v := int64(1)<<uint(k) + d
			if v >= 0 && v < 1<<32 {
				codecOp(c, fmt.Sprintf("code.str %d", v))
			}
		}
	}
	codecOp(c, "code.str 4294967295")
	nRand := 20000
	if c.Thorough() {
		nRand = 400000
	}
	for i := 0; i < nRand; i++ {
		codecOp(c, fmt.Sprintf("code.str %d", uint32(r.U64())))
	}
	// text inputs: names, near-names, code_N forms incl. named range, signs, overflow, junk
	texts := []string{"", "code_", "code_0", "code_1", "code_16", "code_17", "code_-1", "code_+5", "code_+17", "code_007", "code_017",
		"code_4294967295", "code_4294967296", "code_4294967297", "code_9223372036854775807", "code_9223372036854775808",
		"code_-9223372036854775808", "code_1_000", "code_0x11", "code_17 ", " code_17", "CODE_17", "Canceled", "canceled ", "cancelled",
		"code_१७", "code_1e3", "code_--1", "ok", "0", "17",
		// the prefix is a prefix, not a set of characters to skip
		"code__17", "code_code_17", "code_c0", "code_eco_999", "code_d5", "code_o_e_d_c_3", "code_code_", "_17", "ode_17", "ccode_17", "code_ 17"}
	for name := range definedNames {
		texts = append(texts, name, name+"x", name[:len(name)-1], strings.ToUpper(name), "code_"+name)
		// white space is not part of a name: line terminators, blanks and tabs on either side
		texts = append(texts, name+"\n", name+"\r\n", name+"\r", "\n"+name, name+"\t", "\t"+name, name+"\x00", name+"\n\n")
	}
	texts = append(texts, "code_18\n", "code_18\r\n", "\ncode_18", "code_18\t", "code_\n18", "code_18\x00")
	for _, t := range texts {
		codecOp(c, "code.parse "+hx([]byte(t)))
	}
	for i := 0; i < 3000; i++ {
		var t string
		switch r.Intn(4) {
		case 0:
			t = fmt.Sprintf("code_%d", r.U64()>>uint(r.Intn(64)))
		case 1:
			t = fmt.Sprintf("code_%d", -int64(r.U64()>>uint(1+r.Intn(63))))
		case 2:
			t = "code_" + string(r.Bytes(r.Intn(6)))
			if r.Chance(40) {
				// letters of the prefix itself in front of a number
				t = "code_" + string([]byte{"code_"[r.Intn(5)], "code_"[r.Intn(5)]}[:1+r.Intn(2)]) + fmt.Sprint(r.Intn(30))
			}
		default:
			t = string(r.Bytes(r.Intn(12)))
		}
		codecOp(c, "code.parse "+hx([]byte(t)))
	}
	// a unary Connect handler whose *response* cannot be written (the codec refuses it): the
	// failure is an error like any other - JSON under the HTTP status of its code, never a 200
	// (round 9, C18-ml)
	for _, codecName := range []string{"raw", "proto"} {
		h := connect.NewUnaryHandler("/s/m", func(ctx context.Context, r *connect.Request[[]byte]) (*connect.Response[[]byte], error) {
			return connect.NewResponse(&[]byte{1, 2, 3}), nil
		}, connect.WithCodec(refusingCodec{rawCodec{codecName}}))
		req := httptest.NewRequest(http.MethodPost, "/s/m", strings.NewReader("x"))
		req.Header.Set("Content-Type", "application/"+codecName)
		rec := httptest.NewRecorder()
		desc := "unary Connect handler (codec " + codecName + ") whose response message the codec refuses to marshal"
		c.Begin(desc)
		got := safely(func() string {
			h.ServeHTTP(rec, req)
			return fmt.Sprintf("status=%d body-has-code=%v", rec.Code, strings.Contains(rec.Body.String(), `"code":"internal"`))
		})
		c.Count("http-status-after-failed-send")
		if got != "status=500 body-has-code=true" {
			c.Fail("http-status-after-failed-send", desc, got, "a failed unary Connect call has the HTTP status of its code (internal: 500), not 200")
		}
	}
	// the text form is a value, not a window into the library: what one caller does to the bytes
	// it was handed does not change what the next caller gets (round 10, C18-mm)
	for n := uint32(0); n <= 20; n++ {
		code := connect.Code(n)
		first, err1 := code.MarshalText()
		want := string(first)
		for i := range first {
			first[i] = 'X'
		}
		second, err2 := code.MarshalText()
		var back connect.Code
		err3 := back.UnmarshalText(second)
		c.Count("code-text-fresh")
		if err1 != nil || err2 != nil || string(second) != want || err3 != nil || back != code {
			c.Fail("code-text-shared", fmt.Sprintf("Code(%d).MarshalText(), overwrite the result, MarshalText() again", n), fmt.Sprintf("second text %q (first was %q), parses back to %d (err %v)", second, want, back, err3), "the text form round-trips for every code, whatever earlier callers did with their copies")
		}
	}
	// --- code -> HTTP (real handler) and HTTP -> code (real clients) ---
	for n := 0; n <= 64; n++ {
		codecOp(c, fmt.Sprintf("code.http %d", n))
	}
	for i := 0; i < 40; i++ {
		codecOp(c, fmt.Sprintf("code.http %d", uint32(r.U64())))
	}
	for status := 100; status <= 599; status++ {
		if status == 200 {
			continue
		}
		codecOp(c, fmt.Sprintf("http.code.connect %d", status))
		codecOp(c, fmt.Sprintf("http.code.grpc %d", status))
	}
	// --- percent-encoding and binary headers: all strings up to length 2 (3 when thorough) ---
	maxLen := 2
	if c.Thorough() {
		maxLen = 3
	}
	var rec func(prefix []byte, depth int)
	rec = func(prefix []byte, depth int) {
		h := hx(prefix)
		if depth < 3 {
			codecOp(c, "pct.enc "+h)
			codecOp(c, "b64.enc "+h)
			codecOp(c, "b64.dec "+h)
		}
		codecOp(c, "pct.dec "+h) // the decoder's window is 3 bytes: enumerate it completely when thorough
		if depth == maxLen {
			return
		}
		for b := 0; b < 256; b++ {
			rec(append(prefix[:len(prefix):len(prefix)], byte(b)), depth+1)
		}
	}
	rec(nil, 0)
	// padding in every place a decoder might look for it, and nothing else
	for _, t := range []string{"=", "==", "===", "====", "=====", "========", "============", "A===", "AA==", "AAA=", "====AAAA", "AAAA====", "AA==AA==", "=A==", "A=A=", "AAAA=", "AAAAA===", "\n====", "====\n", "=\n=\n=\n="} {
		codecOp(c, "b64.dec "+hx([]byte(t)))
	}
	c.exhaust = true
	c.Note("byte strings up to length 2 enumerated completely for pct.enc/b64.enc/b64.dec and up to length %d for pct.dec; codes 0..%d enumerated", maxLen, maxSeq)
	if c.Thorough() {
		allCodes(c)
	}
	// very long strings (oracle only: the round trip itself; a megabyte of details is an error
	// with a stack trace or a batch of per-item violations - round 11, C18-mp)
	for _, n := range []int{786432, 786433, 1<<20 + 1, 3<<20 + 1} {
		raw := r.Bytes(n)
		c.Count("probe-b64-long")
		got := safely(func() string {
			for _, enc := range []string{connect.EncodeBinaryHeader(raw), base64.StdEncoding.EncodeToString(raw)} {
				dec, err := connect.DecodeBinaryHeader(enc)
				if err != nil {
					return "decode failed: " + err.Error()
				}
				if !bytes.Equal(dec, raw) {
					return "decoded to something else"
				}
			}
			return "ok"
		})
		if got != "ok" {
			c.Fail("b64-long-roundtrip", fmt.Sprintf("DecodeBinaryHeader(EncodeBinaryHeader(b)), %d random bytes (padded and unpadded)", n), got, "binary header values round-trip every byte string")
		}
	}
	// long random strings, structured decoder inputs
	alphabet := "ABCDEFGHIJKLMNOPQRSTUVWXYZabcdefghijklmnopqrstuvwxyz0123456789+/"
	for i := 0; i < 6000; i++ {
		n := r.Intn(40)
		if i%50 == 0 {
			n = 1000 + r.Intn(3000)
		}
		raw := r.Bytes(n)
		codecOp(c, "pct.enc "+hx(raw))
		codecOp(c, "b64.enc "+hx(raw))
		// decoder inputs: mostly-valid percent text with stray %, truncated escapes, bad hex
		var pct []byte
		for j := 0; j < n; j++ {
			switch r.Intn(8) {
			case 0:
				pct = append(pct, '%')
			case 1:
				pct = append(pct, []byte(fmt.Sprintf("%%%02X", r.Intn(256)))...)
			case 2:
				pct = append(pct, []byte(fmt.Sprintf("%%%02x", r.Intn(256)))...)
			case 3:
				pct = append(pct, '%', "0123456789abcdefgGxX-+ "[r.Intn(23)])
			default:
				pct = append(pct, byte(0x20+r.Intn(0x5f)))
			}
		}
		codecOp(c, "pct.dec "+hx(pct))
		// base64 decoder inputs: valid raw, valid padded, newlines, misplaced padding, junk
		var b64 []byte
		switch r.Intn(6) {
		case 0:
			b64 = []byte(base64.RawStdEncoding.EncodeToString(raw))
		case 1:
			b64 = []byte(base64.StdEncoding.EncodeToString(raw))
		case 2:
			b64 = []byte(base64.StdEncoding.EncodeToString(raw))
			if len(b64) > 0 {
				p := r.Intn(len(b64) + 1)
				b64 = append(b64[:p:p], append([]byte{"\r\n="[r.Intn(3)]}, b64[p:]...)...)
			}
		case 3:
			for j := 0; j < n%24; j++ {
				b64 = append(b64, alphabet[r.Intn(64)])
			}
		case 4:
			for j := 0; j < n%24; j++ {
				b64 = append(b64, (alphabet + "==\r\n-_")[r.Intn(70)])
			}
		default:
			b64 = r.Bytes(n % 16)
		}
		codecOp(c, "b64.dec "+hx(b64))
	}
}

// refusingCodec unmarshals like rawCodec and refuses to marshal anything.
type refusingCodec struct{ rawCodec }

func (refusingCodec) Marshal(any) ([]byte, error) {
	return nil, errors.New("codec: cannot marshal this message")
}
