package main

import (
	"bytes"
	"errors"
	"fmt"
	"io"

	connect "github.com/bufbuild/connect-go"
)

// rawCodec: messages are *[]byte; payloads starting with 0xEE are rejected by Unmarshal.
// Mirrors ConnectModel.Toy.rawCodec.
type rawCodec struct{ name string }

func (c rawCodec) Name() string {
	if c.name == "" {
		return "raw"
	}
	return c.name
}
func (rawCodec) Marshal(msg any) ([]byte, error) {
	p, ok := msg.(*[]byte)
	if !ok {
		return nil, fmt.Errorf("raw codec: %T", msg)
	}
	return append([]byte(nil), *p...), nil // never alias user memory: the library recycles this slice
}
func (rawCodec) Unmarshal(data []byte, msg any) error {
	p, ok := msg.(*[]byte)
	if !ok {
		return fmt.Errorf("raw codec: %T", msg)
	}
	if len(data) > 0 && data[0] == 0xEE {
		return errors.New("raw codec: payload rejected")
	}
	*p = append([]byte(nil), data...)
	return nil
}

// RLE toy compression. Mirrors ConnectModel.Toy.rleCompress / rleDecompress.
func rleCompress(b []byte) []byte {
	var out []byte
	for i := 0; i < len(b); {
		j := i
		for j < len(b) && b[j] == b[i] && j-i < 255 {
			j++
		}
		out = append(out, byte(j-i), b[i])
		i = j
	}
	return out
}

type rleCompressor struct {
	w   io.Writer
	buf bytes.Buffer
}

func (c *rleCompressor) Write(p []byte) (int, error) { return c.buf.Write(p) }
func (c *rleCompressor) Close() error {
	if c.w == nil {
		return nil
	}
	_, err := c.w.Write(rleCompress(c.buf.Bytes()))
	c.buf.Reset()
	return err
}
func (c *rleCompressor) Reset(w io.Writer) { c.w = w; c.buf.Reset() }

// streaming decoder: expands pairs as they arrive; a zero count or a dangling byte is an error
// reported after the output produced so far.
type rleDecompressor struct {
	r       io.Reader
	pending []byte
	err     error
}

func (d *rleDecompressor) Reset(r io.Reader) error { d.r, d.pending, d.err = r, nil, nil; return nil }
func (d *rleDecompressor) Close() error            { return nil }
func (d *rleDecompressor) Read(p []byte) (int, error) {
	for len(d.pending) == 0 {
		if d.err != nil {
			return 0, d.err
		}
		var pair [2]byte
		n, err := io.ReadFull(d.r, pair[:])
		switch {
		case n == 0 && (err == io.EOF):
			d.err = io.EOF
		case n == 1:
			d.err = errors.New("rle: dangling byte")
		case err != nil:
			d.err = err
		case pair[0] == 0:
			d.err = errors.New("rle: zero count")
		default:
			d.pending = bytes.Repeat(pair[1:], int(pair[0]))
		}
	}
	n := copy(p, d.pending)
	d.pending = d.pending[n:]
	return n, nil
}

func newRLEDecompressor() connect.Decompressor { return &rleDecompressor{} }
func newRLECompressor() connect.Compressor     { return &rleCompressor{} }

// scriptReader delivers a byte string under a given segmentation, exactly like
// ConnectModel.read1: at most one chunk per Read (split if it does not fit); the tail error is
// returned together with the last bytes (withData) or by the next Read, and is sticky.
type scriptReader struct {
	chunks   [][]byte
	tail     error
	withData bool
	reads    int
	sawEnd   bool
}

func (s *scriptReader) Read(p []byte) (int, error) {
	s.reads++
	if len(p) == 0 {
		return 0, nil
	}
	if len(s.chunks) == 0 {
		if s.tail == io.EOF {
			s.sawEnd = true // a read that reports the end with no data (what sets ResponseEnded)
		}
		return 0, s.tail
	}
	c := s.chunks[0]
	if len(c) <= len(p) {
		n := copy(p, c)
		s.chunks = s.chunks[1:]
		if len(s.chunks) == 0 && s.withData {
			return n, s.tail
		}
		return n, nil
	}
	n := copy(p, c[:len(p)])
	s.chunks[0] = c[n:]
	return n, nil
}
func (s *scriptReader) Close() error { return nil }

// segment splits flat at the given cut offsets (strictly increasing, inside (0, len)).
func segment(flat []byte, cuts []int) [][]byte {
	var chunks [][]byte
	prev := 0
	for _, c := range cuts {
		if c > prev && c < len(flat) {
			chunks = append(chunks, flat[prev:c])
			prev = c
		}
	}
	if prev < len(flat) {
		chunks = append(chunks, flat[prev:])
	}
	return chunks
}

var errTransport = errors.New("transport reset by peer")

func tailError(name string) error {
	switch name {
	case "eof":
		return io.EOF
	case "ueof":
		return io.ErrUnexpectedEOF
	case "weof":
		// the end of the body reported by something that adds context to it (middleware, a
		// transport wrapper): an error that wraps io.EOF without being it
		return fmt.Errorf("request body: %w", io.EOF)
	case "err":
		return errTransport
	}
	var code int
	var w int
	if _, err := fmt.Sscanf(name, "coded:%d:%d", &code, &w); err == nil {
		if w == 1 {
			return connect.NewError(connect.Code(code), fmt.Errorf("coded: %w", io.EOF))
		}
		return connect.NewError(connect.Code(code), errors.New("coded"))
	}
	panic("bad tail " + name)
}

func envPrefix(flags byte, n int) []byte {
	return []byte{flags, byte(n >> 24), byte(n >> 16), byte(n >> 8), byte(n)}
}

func frame(flags byte, payload []byte) []byte {
	return append(envPrefix(flags, len(payload)), payload...)
}

// strictCodec: like rawCodec, but - like JSON - it has no encoding of any value in zero bytes.
type strictCodec struct{ rawCodec }

func (c strictCodec) Unmarshal(data []byte, msg any) error {
	if len(data) == 0 {
		return errors.New("strict codec: unexpected end of input")
	}
	return c.rawCodec.Unmarshal(data, msg)
}
