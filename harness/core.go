package main

import (
	"bufio"
	"encoding/hex"
	"encoding/json"
	"fmt"
	"os"
	"path/filepath"
	"sort"
	"strings"
	"sync"
	"sync/atomic"
	"time"
)

// Rng is splitmix64: every random choice of a run derives from VERIF_SEED.
type Rng struct{ s uint64 }

func NewRng(seed uint64) *Rng { return &Rng{s: seed*0x9E3779B97F4A7C15 + 0x1234567} }

func (r *Rng) U64() uint64 {
	r.s += 0x9E3779B97F4A7C15
	z := r.s
	z = (z ^ (z >> 30)) * 0xBF58476D1CE4E5B9
	z = (z ^ (z >> 27)) * 0x94D049BB133111EB
	return z ^ (z >> 31)
}
func (r *Rng) Intn(n int) int {
	if n <= 0 {
		return 0
	}
	return int(r.U64() % uint64(n))
}
func (r *Rng) Bool() bool        { return r.U64()&1 == 1 }
func (r *Rng) Chance(p int) bool { return r.Intn(100) < p } // p percent
func (r *Rng) Bytes(n int) []byte {
	b := make([]byte, n)
	for i := range b {
		b[i] = byte(r.U64())
	}
	return b
}
func (r *Rng) Pick(xs []string) string { return xs[r.Intn(len(xs))] }
func (r *Rng) Fork() *Rng              { return NewRng(r.U64()) }

// OracleFail is one violation of the property's own oracle on the implementation.
type OracleFail struct {
	Property string `json:"property"`
	Stream   string `json:"stream"`
	Key      string `json:"key"` // stable identifier of the failing input class (known-findings match on it)
	Op       string `json:"op"`
	Impl     string `json:"impl"`
	What     string `json:"what"`
}

// Ctx collects the op lines, the implementation's canonical answers, oracle verdicts and
// input-distribution counters of one stream run.
type Ctx struct {
	Stream    string
	Property  string
	Tier      string
	Seed      uint64
	Rng       *Rng
	outDir    string
	mu        sync.Mutex
	ops       *bufio.Writer
	impl      *bufio.Writer
	opsF      *os.File
	implF     *os.File
	n         int
	distinct  map[string]struct{}
	nontriv   int
	dist      map[string]int
	samples   []string
	fails     []OracleFail
	notes     []string
	exhaust   bool
	closeOnce sync.Once
	curF      *os.File
}

func NewCtx(stream, property, tier string, seed uint64, outDir string) *Ctx {
	if err := os.MkdirAll(outDir, 0o755); err != nil {
		panic(err)
	}
	opsF, err := os.Create(filepath.Join(outDir, "ops.txt"))
	if err != nil {
		panic(err)
	}
	implF, err := os.Create(filepath.Join(outDir, "impl.txt"))
	if err != nil {
		panic(err)
	}
	return &Ctx{
		Stream: stream, Property: property, Tier: tier, Seed: seed, Rng: NewRng(seed),
		outDir: outDir, ops: bufio.NewWriterSize(opsF, 1<<20), impl: bufio.NewWriterSize(implF, 1<<20),
		opsF: opsF, implF: implF, distinct: map[string]struct{}{}, dist: map[string]int{}, fails: []OracleFail{}, notes: []string{}, samples: []string{},
	}
}

func (c *Ctx) Thorough() bool { return c.Tier == "thorough" }

// Begin records the operation about to run, so that a crash of the whole process (a panic on a
// goroutine of the library cannot be recovered from here) still names its input.
func (c *Ctx) Begin(op string) {
	if !guardOps {
		return
	}
	c.mu.Lock()
	if c.curF == nil {
		c.curF, _ = os.Create(filepath.Join(c.outDir, "current_op.txt"))
	}
	if c.curF != nil {
		_ = c.curF.Truncate(0)
		_, _ = c.curF.WriteAt([]byte(op), 0)
	}
	c.mu.Unlock()
}

// Emit records one model-comparable operation: the op line (sent to the Lean driver) and the
// implementation's canonical answer. nontrivial marks cases that count for distinct_nontrivial.
func (c *Ctx) Emit(op, implAnswer string, nontrivial bool) {
	c.mu.Lock()
	defer c.mu.Unlock()
	if strings.ContainsAny(op, "\n\r") || strings.ContainsAny(implAnswer, "\n\r") {
		panic("newline in op or answer: " + op)
	}
	c.ops.WriteString(op)
	c.ops.WriteByte('\n')
	c.impl.WriteString(implAnswer)
	c.impl.WriteByte('\n')
	c.n++
	if nontrivial {
		if len(c.distinct) < 2_000_000 {
			if _, ok := c.distinct[op]; !ok {
				c.distinct[op] = struct{}{}
				c.nontriv++
			}
		}
	}
	if len(c.samples) < 6 || (c.n%997 == 0 && len(c.samples) < 14) {
		s := op + " => " + implAnswer
		if len(s) > 300 {
			s = s[:300] + "…"
		}
		c.samples = append(c.samples, s)
	}
}

// Count bumps an input-distribution counter.
func (c *Ctx) Count(key string) {
	c.mu.Lock()
	c.dist[key]++
	c.mu.Unlock()
}

func (c *Ctx) CountN(key string, n int) {
	c.mu.Lock()
	c.dist[key] += n
	c.mu.Unlock()
}

// Fail records a violation of the property's oracle on the implementation.
func (c *Ctx) Fail(key, op, impl, what string) {
	c.mu.Lock()
	defer c.mu.Unlock()
	if len(c.fails) < 200 {
		c.fails = append(c.fails, OracleFail{Property: c.Property, Stream: c.Stream, Key: key, Op: op, Impl: impl, What: what})
	}
	c.dist["oracle-fail"]++
	if c.dist["oracle-fail"] == 300 && c.Tier != "replay" {
		// nothing more to learn from this run, and a broken implementation can make every further
		// operation very slow (giant allocations after a desynchronised stream)
		go func() {
			c.Note("stream stopped early after 300 oracle failures")
			c.Close()
			fmt.Printf("stream=%s stopped early after 300 oracle failures\n", c.Stream)
			os.Exit(0)
		}()
	}
}

func (c *Ctx) Note(format string, args ...any) {
	c.mu.Lock()
	c.notes = append(c.notes, fmt.Sprintf(format, args...))
	c.mu.Unlock()
}

func (c *Ctx) Close() { c.closeOnce.Do(c.closeImpl) }

func (c *Ctx) closeImpl() {
	c.mu.Lock()
	defer c.mu.Unlock()
	// canary: the model answers "canary-model"; the differ must flag exactly this line.
	c.ops.WriteString("canary\n")
	c.impl.WriteString("canary-impl\n")
	c.ops.Flush()
	c.impl.Flush()
	c.opsF.Close()
	c.implF.Close()
	if c.curF != nil {
		c.curF.Close()
		_ = os.Remove(filepath.Join(c.outDir, "current_op.txt"))
	}
	keys := make([]string, 0, len(c.dist))
	for k := range c.dist {
		keys = append(keys, k)
	}
	sort.Strings(keys)
	stats := map[string]any{
		"stream": c.Stream, "property": c.Property, "tier": c.Tier, "seed": c.Seed,
		"ops": c.n, "distinct_nontrivial": c.nontriv, "distribution": c.dist,
		"samples": c.samples, "oracle_failures": c.fails, "notes": c.notes, "exhaustive": c.exhaust,
	}
	data, _ := json.MarshalIndent(stats, "", " ")
	if err := os.WriteFile(filepath.Join(c.outDir, "stats.json"), data, 0o644); err != nil {
		panic(err)
	}
}

func hx(b []byte) string {
	if len(b) == 0 {
		return "-"
	}
	return hex.EncodeToString(b)
}

func unhx(s string) []byte {
	if s == "-" {
		return nil
	}
	b, err := hex.DecodeString(s)
	if err != nil {
		panic("bad hex " + s)
	}
	return b
}

// safely runs f and converts a panic into an answer string (no operation may panic).
func safely(f func() string) (ans string) {
	if !guardOps {
		return safelyInline(f)
	}
	// under a watchdog: an operation that does not return is a finding with a concrete input,
	// not a reason for the whole stream to time out
	done := make(chan string, 1)
	go func() { done <- safelyInline(f) }()
	timer := time.NewTimer(opTimeout)
	defer timer.Stop()
	select {
	case ans = <-done:
		return ans
	case <-timer.C:
		if atomic.AddInt32(&opHangs, 1) >= 3 && activeCtx != nil {
			// the stuck goroutines cannot be stopped: report what was found so far and stop the stream
			go func() {
				time.Sleep(200 * time.Millisecond) // let the caller record this op's verdict
				activeCtx.Note("stream stopped early: %d operations did not return within %v", atomic.LoadInt32(&opHangs), opTimeout)
				activeCtx.Close()
				fmt.Printf("stream=%s stopped early after hangs\n", activeCtx.Stream)
				os.Exit(0)
			}()
		}
		return fmt.Sprintf("PANIC hang: the operation did not return within %v", opTimeout)
	}
}

var (
	guardOps  = true
	opTimeout = 20 * time.Second
	opHangs   int32
	activeCtx *Ctx
)

func safelyInline(f func() string) (ans string) {
	defer func() {
		if r := recover(); r != nil {
			ans = fmt.Sprintf("PANIC %v", r)
			ans = strings.ReplaceAll(ans, "\n", " ")
		}
	}()
	return f()
}
