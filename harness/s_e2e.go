package main

import (
	"bytes"
	"context"
	"errors"
	"fmt"
	proto2 "google.golang.org/protobuf/proto"
	"google.golang.org/protobuf/types/known/structpb"
	"io"
	"net/http"
	"net/http/httptest"
	"strings"
	"sync"
	"sync/atomic"
	"time"

	connect "github.com/bufbuild/connect-go"
	"google.golang.org/protobuf/encoding/protowire"
	"google.golang.org/protobuf/proto"
	"google.golang.org/protobuf/types/known/wrapperspb"
)

// S-e2e (C01): real clients against real handlers through the typed stream wrappers
// (ClientStream, ServerStream, BidiStream, ...ForClient), in process and over real HTTP/1.1 and
// HTTP/2 servers; raw codec with toy compression, and proto / JSON codecs with gzip.
// Oracle only (no model op): what one side passed in is what the other side's API yields.

func init() { register("e2e", "C01", streamE2E) }

type e2eCase struct {
	proto, kind, codec string
	sendComp           string // "", "gzip", "rle"
	min                int
	transport          string // inproc | h1 | h2
	msgs               [][]byte
}

func (e e2eCase) String() string {
	return fmt.Sprintf("e2e proto=%s kind=%s codec=%s comp=%s min=%d transport=%s msgs=%s", e.proto, e.kind, e.codec, e.sendComp, e.min, e.transport, hexList(e.msgs))
}

// echo handlers: every received message is sent back (streaming) or their concatenation (unary-like)
func e2eHandler(kind string, hopts []connect.HandlerOption, seen *[][]byte, mu *sync.Mutex) *connect.Handler {
	record := func(m []byte) {
		mu.Lock()
		*seen = append(*seen, append([]byte{}, m...))
		mu.Unlock()
	}
	switch kind {
	case "unary":
		return connect.NewUnaryHandler("/s/m", func(ctx context.Context, r *connect.Request[[]byte]) (*connect.Response[[]byte], error) {
			record(*r.Msg)
			out := append([]byte{}, (*r.Msg)...)
			return connect.NewResponse(&out), nil
		}, hopts...)
	case "client":
		return connect.NewClientStreamHandler("/s/m", func(ctx context.Context, s *connect.ClientStream[[]byte]) (*connect.Response[[]byte], error) {
			var all []byte
			for s.Receive() {
				record(*s.Msg())
				all = append(all, byte(len(*s.Msg())))
				all = append(all, (*s.Msg())...)
			}
			if s.Err() != nil {
				return nil, s.Err()
			}
			return connect.NewResponse(&all), nil
		}, hopts...)
	case "server":
		return connect.NewServerStreamHandler("/s/m", func(ctx context.Context, r *connect.Request[[]byte], s *connect.ServerStream[[]byte]) error {
			record(*r.Msg)
			// the request message is a list of length-prefixed payloads to stream back
			rest := *r.Msg
			for len(rest) > 0 {
				n := int(rest[0])
				out := append([]byte{}, rest[1:1+n]...)
				if err := s.Send(&out); err != nil {
					return err
				}
				rest = rest[1+n:]
			}
			return nil
		}, hopts...)
	}
	return connect.NewBidiStreamHandler("/s/m", func(ctx context.Context, s *connect.BidiStream[[]byte, []byte]) error {
		for {
			m, err := s.Receive()
			if err != nil {
				if errors.Is(err, io.EOF) {
					return nil
				}
				return err
			}
			record(*m)
			out := append([]byte{}, (*m)...)
			if err := s.Send(&out); err != nil {
				return err
			}
		}
	}, hopts...)
}

func lengthPrefixed(msgs [][]byte) []byte {
	var all []byte
	for _, m := range msgs {
		all = append(all, byte(len(m)))
		all = append(all, m...)
	}
	return all
}

func runE2E(c *Ctx, e e2eCase, servers map[string]*httptest.Server) {
	var seen [][]byte
	var mu sync.Mutex
	codecName := "raw"
	if e.sendComp == "X-Rle" {
		codecName = "Raw-V2" // … and a codec whose registered name has upper-case letters, on both sides
	}
	hopts := []connect.HandlerOption{connect.WithCodec(rawCodec{codecName}), connect.WithCompression("rle", newRLEDecompressor, newRLECompressor), connect.WithCompressMinBytes(e.min)}
	if e.sendComp == "X-Rle" { // an algorithm registered under a name with upper-case letters, on both sides
		hopts = append(hopts, connect.WithCompression("X-Rle", newRLEDecompressor, newRLECompressor))
	}
	h := e2eHandler(e.kind, hopts, &seen, &mu)
	var hc connect.HTTPClient
	url := "http://h/s/m"
	switch e.transport {
	case "inproc":
		hc = &inprocClient{h: h}
	default:
		srv := httptest.NewUnstartedServer(h)
		srv.EnableHTTP2 = e.transport == "h2"
		srv.StartTLS()
		defer srv.Close()
		hc = srv.Client()
		url = srv.URL + "/s/m"
	}
	copts := []connect.ClientOption{connect.WithCodec(rawCodec{codecName}), connect.WithAcceptCompression("rle", newRLEDecompressor, newRLECompressor), connect.WithCompressMinBytes(e.min)}
	if e.sendComp == "X-Rle" {
		copts = append(copts, connect.WithAcceptCompression("X-Rle", newRLEDecompressor, newRLECompressor))
	}
	if e.sendComp == "accept-rle-x" {
		// the client offers an algorithm whose name merely starts like one the handler has ("rle-x"
		// is not "rle"): the handler must answer with something the client offered (gzip) or nothing
		copts = []connect.ClientOption{connect.WithCodec(rawCodec{"raw"}), connect.WithAcceptCompression("rle-x", newRepDecompressor, newRepCompressor), connect.WithCompressMinBytes(e.min)}
	} else if e.sendComp != "" {
		copts = append(copts, connect.WithSendCompression(e.sendComp))
	}
	switch e.proto {
	case "grpc":
		copts = append(copts, connect.WithGRPC())
	case "grpcweb":
		copts = append(copts, connect.WithGRPCWeb())
	}
	cl := connect.NewClient[[]byte, []byte](hc, url, copts...)
	ctx := context.Background()
	var sent, wantBack, got [][]byte
	var callErr error
	func() {
		defer func() {
			if r := recover(); r != nil {
				callErr = fmt.Errorf("PANIC %v", r)
			}
		}()
		switch e.kind {
		case "unary":
			m := lengthPrefixed(e.msgs)
			sent, wantBack = [][]byte{m}, [][]byte{m}
			res, err := cl.CallUnary(ctx, connect.NewRequest(&m))
			if err != nil {
				callErr = err
				return
			}
			got = [][]byte{*res.Msg}
		case "client":
			sent, wantBack = e.msgs, [][]byte{lengthPrefixed(e.msgs)}
			s := cl.CallClientStream(ctx)
			for i := range e.msgs {
				m := append([]byte{}, e.msgs[i]...)
				if err := s.Send(&m); err != nil {
					callErr = err
					return
				}
			}
			res, err := s.CloseAndReceive()
			if err != nil {
				callErr = err
				return
			}
			got = [][]byte{*res.Msg}
		case "server":
			m := lengthPrefixed(e.msgs)
			sent, wantBack = [][]byte{m}, e.msgs
			s, err := cl.CallServerStream(ctx, connect.NewRequest(&m))
			if err != nil {
				callErr = err
				return
			}
			for s.Receive() {
				got = append(got, append([]byte{}, (*s.Msg())...))
			}
			callErr = s.Err()
			_ = s.Close()
		default:
			sent, wantBack = e.msgs, e.msgs
			s := cl.CallBidiStream(ctx)
			if e.transport == "h2" {
				// interleaved: send one, receive its echo
				for i := range e.msgs {
					m := append([]byte{}, e.msgs[i]...)
					if err := s.Send(&m); err != nil {
						callErr = err
						return
					}
					r, err := s.Receive()
					if err != nil {
						callErr = err
						return
					}
					got = append(got, append([]byte{}, (*r)...))
				}
				_ = s.CloseRequest()
				if _, err := s.Receive(); !errors.Is(err, io.EOF) {
					callErr = fmt.Errorf("bidi stream did not end cleanly: %v", err)
				}
			} else {
				for i := range e.msgs {
					m := append([]byte{}, e.msgs[i]...)
					if err := s.Send(&m); err != nil {
						callErr = err
						return
					}
				}
				_ = s.CloseRequest()
				for {
					r, err := s.Receive()
					if err != nil {
						if !errors.Is(err, io.EOF) {
							callErr = err
						}
						break
					}
					got = append(got, append([]byte{}, (*r)...))
				}
			}
			_ = s.CloseResponse()
		}
	}()
	op := e.String()
	c.Count(e.proto + "/" + e.kind + "/" + e.transport)
	if callErr != nil {
		c.Fail("e2e-call-failed", op, callErr.Error(), "a well-formed call failed")
		return
	}
	mu.Lock()
	defer mu.Unlock()
	if !equalMsgs(seen, sent) {
		c.Fail("e2e-request-direction", op, hexList(seen), "the handler did not receive the messages the client sent (count, order, content): want "+hexList(sent))
	}
	if !equalMsgs(got, wantBack) {
		c.Fail("e2e-response-direction", op, hexList(got), "the client did not receive the messages the handler sent (count, order, content): want "+hexList(wantBack))
	}
}

func equalMsgs(a, b [][]byte) bool {
	if len(a) != len(b) {
		return false
	}
	for i := range a {
		if !bytes.Equal(a[i], b[i]) {
			return false
		}
	}
	return true
}

// phantomRequestProbe (F34): a message the sender's codec refuses to encode was never sent. The
// call fails on the client - and the handler must not run with a message nobody sent (an empty
// unary Connect body *is* a valid zero message).
func phantomRequestProbe(c *Ctx) {
	for _, proto := range []string{"connect", "grpc", "grpcweb"} {
		for _, transport := range []string{"inproc", "h2", "h1"} {
			for _, comp := range []string{"", "rle"} {
				runs := int32(0)
				h := connect.NewUnaryHandler("/s/m", func(ctx context.Context, r *connect.Request[[]byte]) (*connect.Response[[]byte], error) {
					atomic.AddInt32(&runs, 1)
					return connect.NewResponse(&[]byte{1}), nil
				}, connect.WithCodec(rawCodec{"raw"}), connect.WithCompression("rle", newRLEDecompressor, newRLECompressor))
				desc := fmt.Sprintf("%s unary call (%s, send compression %q) whose message the client's codec refuses to marshal, then a good call", proto, transport, comp)
				c.Begin(desc)
				c.Count("phantom-request-probe")
				got := safely(func() string {
					var hc connect.HTTPClient = &inprocClient{h: h}
					url := "http://h/s/m"
					if transport != "inproc" {
						srv := httptest.NewUnstartedServer(h)
						srv.EnableHTTP2 = transport == "h2"
						srv.StartTLS()
						defer srv.Close()
						hc, url = srv.Client(), srv.URL+"/s/m"
					}
					opts := append(protoOpts(proto), connect.WithCodec(pickyCodec{rawCodec{"raw"}}), connect.WithAcceptCompression("rle", newRLEDecompressor, newRLECompressor))
					if comp != "" {
						opts = append(opts, connect.WithSendCompression(comp), connect.WithCompressMinBytes(0))
					}
					cl := connect.NewClient[[]byte, []byte](hc, url, opts...)
					_, err := cl.CallUnary(context.Background(), connect.NewRequest(&[]byte{0xBD, 1, 2}))
					time.Sleep(30 * time.Millisecond) // a request that went out all the same has been served by now
					after := atomic.LoadInt32(&runs)
					_, err2 := cl.CallUnary(context.Background(), connect.NewRequest(&[]byte{7}))
					return fmt.Sprintf("refused call failed=%v handler runs after it=%d next call ok=%v", err != nil, after, err2 == nil)
				})
				if got != "refused call failed=true handler runs after it=0 next call ok=true" {
					c.Fail("e2e-phantom-message", desc, got, "the receiving side yields what the sending side passed in: a message that could not be encoded is not an empty message")
				}
			}
		}
	}
}

// earlyFinishProbe (round 10, C01-mm): the handler answers after the first message and stops
// reading; the client keeps sending until Send reports the end (an error wrapping io.EOF) and
// then reads: the response that is already there arrives intact, followed by a clean end.
func earlyFinishProbe(c *Ctx) {
	for _, proto := range []string{"connect", "grpc", "grpcweb"} {
		for _, kind := range []string{"client", "bidi"} {
			var h http.Handler
			if kind == "client" {
				h = connect.NewClientStreamHandler("/s/m", func(ctx context.Context, s *connect.ClientStream[[]byte]) (*connect.Response[[]byte], error) {
					s.Receive()
					return connect.NewResponse(&[]byte{0xA1, 0xA2, 0xA3}), nil
				}, connect.WithCodec(rawCodec{"raw"}))
			} else {
				h = connect.NewBidiStreamHandler("/s/m", func(ctx context.Context, s *connect.BidiStream[[]byte, []byte]) error {
					_, _ = s.Receive()
					_ = s.Send(&[]byte{0xA1})
					return s.Send(&[]byte{0xA2, 0xA3})
				}, connect.WithCodec(rawCodec{"raw"}))
			}
			desc := fmt.Sprintf("%s %s call over HTTP/2: the handler answers after one message; the client sends until Send reports the end, then reads", proto, kind)
			c.Begin(desc)
			c.Count("early-finish-probe")
			got := safely(func() string {
				srv := httptest.NewUnstartedServer(h)
				srv.EnableHTTP2 = true
				srv.StartTLS()
				defer srv.Close()
				cl := connect.NewClient[[]byte, []byte](srv.Client(), srv.URL+"/s/m", protoOpts(proto)...)
				big := bytes.Repeat([]byte{9}, 1<<20)
				if kind == "client" {
					st := cl.CallClientStream(context.Background())
					var serr error
					for i := 0; i < 64 && serr == nil; i++ {
						serr = st.Send(&big)
					}
					res, err := st.CloseAndReceive()
					if err != nil {
						return fmt.Sprintf("send ended with %v; CloseAndReceive failed: %v", serr, err)
					}
					return fmt.Sprintf("response=%x", *res.Msg)
				}
				st := cl.CallBidiStream(context.Background())
				var serr error
				for i := 0; i < 64 && serr == nil; i++ {
					serr = st.Send(&big)
				}
				var got [][]byte
				var end error
				for i := 0; i < 5; i++ {
					m, err := st.Receive()
					if err != nil {
						end = err
						break
					}
					got = append(got, *m)
				}
				_ = st.CloseRequest()
				_ = st.CloseResponse()
				return fmt.Sprintf("response=%x clean-end=%v", got, errors.Is(end, io.EOF))
			})
			want := "response=a1a2a3"
			if kind == "bidi" {
				want = "response=[a1 a2a3] clean-end=true"
			}
			if got != want {
				c.Fail("e2e-response-lost", desc, got, "what the handler sent arrives, in order, followed by a clean end: "+want)
			}
		}
	}
}

// requestReuseProbe (round 10, C01-mn): a Request value that was sent with CallUnary is sent
// again with CallServerStream (Connect): the messages of the stream arrive all the same.
func requestReuseProbe(c *Ctx) {
	for _, codec := range []string{"raw"} {
		hu := connect.NewUnaryHandler("/s/u", func(ctx context.Context, r *connect.Request[[]byte]) (*connect.Response[[]byte], error) {
			return connect.NewResponse(&[]byte{1}), nil
		}, connect.WithCodec(rawCodec{codec}))
		hs := connect.NewServerStreamHandler("/s/s", func(ctx context.Context, r *connect.Request[[]byte], s *connect.ServerStream[[]byte]) error {
			_ = s.Send(&[]byte{0xB1})
			out := append([]byte{0xB2}, (*r.Msg)...)
			return s.Send(&out)
		}, connect.WithCodec(rawCodec{codec}))
		desc := "Connect: one Request value sent with CallUnary and then with CallServerStream"
		c.Begin(desc)
		c.Count("request-reuse-probe")
		got := safely(func() string {
			cu := connect.NewClient[[]byte, []byte](&inprocClient{h: hu}, "http://h/s/u", connect.WithCodec(rawCodec{codec}))
			cs := connect.NewClient[[]byte, []byte](&inprocClient{h: hs}, "http://h/s/s", connect.WithCodec(rawCodec{codec}))
			req := connect.NewRequest(&[]byte{7})
			req.Header().Set("X-App", "a")
			if _, err := cu.CallUnary(context.Background(), req); err != nil {
				return "unary: " + err.Error()
			}
			st, err := cs.CallServerStream(context.Background(), req)
			if err != nil {
				return "stream: " + err.Error()
			}
			var got [][]byte
			for st.Receive() {
				got = append(got, append([]byte{}, (*st.Msg())...))
			}
			return fmt.Sprintf("messages=%x err=%v", got, st.Err())
		})
		if got != "messages=[b1 b207] err=<nil>" {
			c.Fail("e2e-request-reuse", desc, got, "the stream's messages arrive: messages=[b1 b207] err=<nil>")
		}
	}
}

// blockCompressor compresses like RLE but refuses blocks of more than 64 bytes - when it is
// closed, that is: after it has taken all of its input (as a real block format that fails in
// flush does).
type blockCompressor struct {
	inner connect.Compressor
	n     int
}

func (b *blockCompressor) Write(p []byte) (int, error) { b.n += len(p); return b.inner.Write(p) }
func (b *blockCompressor) Close() error {
	if b.n > 64 {
		return errors.New("block too large")
	}
	return b.inner.Close()
}
func (b *blockCompressor) Reset(w io.Writer) { b.n = 0; b.inner.Reset(w) }

// failedSendProbe (C01, oracle only): the receiver gets exactly the messages whose Send
// returned nil - also when the compressor fails for one of them after it has consumed it: that
// Send reports the failure; nothing (and certainly not an empty message) goes out in its place
// (round 11, C01-mo).
func failedSendProbe(c *Ctx) {
	newBlock := func() connect.Compressor { return &blockCompressor{inner: newRLECompressor()} }
	msgs := [][]byte{[]byte("first"), bytes.Repeat([]byte{9}, 100), []byte("third"), {}, []byte("fifth")}
	for _, proto := range []string{"connect", "grpc", "grpcweb"} {
		for _, dir := range []string{"client-stream", "server-stream"} {
			desc := fmt.Sprintf("%s %s of 5 messages through a compressor that fails in Close for the 100-byte second one", proto, dir)
			c.Begin(desc)
			c.Count("failing-compressor-probe")
			got := safely(func() string {
				var sentOK, received [][]byte
				copts := append(protoOpts(proto), connect.WithCodec(rawCodec{"raw"}), connect.WithAcceptCompression("blk", newRLEDecompressor, newBlock), connect.WithSendCompression("blk"), connect.WithCompressMinBytes(0))
				hopts := []connect.HandlerOption{connect.WithCodec(rawCodec{"raw"}), connect.WithCompression("blk", newRLEDecompressor, newBlock), connect.WithCompressMinBytes(0)}
				if dir == "client-stream" {
					h := connect.NewClientStreamHandler("/s/m", func(ctx context.Context, s *connect.ClientStream[[]byte]) (*connect.Response[[]byte], error) {
						for s.Receive() {
							received = append(received, append([]byte{}, (*s.Msg())...))
						}
						return connect.NewResponse(&[]byte{1}), nil
					}, hopts...)
					cl := connect.NewClient[[]byte, []byte](&inprocClient{h: h}, "http://h/s/m", copts...)
					st := cl.CallClientStream(context.Background())
					for _, m := range msgs {
						m := m
						if err := st.Send(&m); err == nil {
							sentOK = append(sentOK, m)
						}
					}
					_, _ = st.CloseAndReceive()
				} else {
					h := connect.NewServerStreamHandler("/s/m", func(ctx context.Context, r *connect.Request[[]byte], s *connect.ServerStream[[]byte]) error {
						for _, m := range msgs {
							m := m
							if err := s.Send(&m); err == nil {
								sentOK = append(sentOK, m)
							}
						}
						return nil
					}, hopts...)
					cl := connect.NewClient[[]byte, []byte](&inprocClient{h: h}, "http://h/s/m", copts...)
					st, err := cl.CallServerStream(context.Background(), connect.NewRequest(&[]byte{1}))
					if err != nil {
						return "call: " + err.Error()
					}
					for st.Receive() {
						received = append(received, append([]byte{}, (*st.Msg())...))
					}
					_ = st.Close()
				}
				if len(sentOK) == len(msgs) {
					return "every Send returned nil, the one whose compressor failed included"
				}
				if len(received) > len(sentOK) {
					return fmt.Sprintf("received %d messages, %d Sends returned nil", len(received), len(sentOK))
				}
				for i := range received {
					if !bytes.Equal(received[i], sentOK[i]) {
						return fmt.Sprintf("message %d arrived as %x, sent as %x", i+1, received[i], sentOK[i])
					}
				}
				return "ok"
			})
			if got != "ok" {
				c.Fail("e2e-failed-send-delivered", desc, got, "the receiver yields the messages whose Send returned nil, in order - nothing in place of one whose Send failed")
			}
		}
	}
}

// deepMessageProbe (C01, oracle only): "regardless of ... content": a message nested a few
// hundred levels deep that the sender's codec encodes is decoded by the receiver's (the binary
// and the JSON codec of the library; round 11, C01-mp: a decode-side recursion limit below the
// encoder's).
func deepMessageProbe(c *Ctx) {
	deep := func(levels int) *structpb.Value {
		v := structpb.NewStringValue("core")
		for i := 0; i < levels; i++ {
			v = structpb.NewListValue(&structpb.ListValue{Values: []*structpb.Value{v}})
		}
		return v
	}
	h := connect.NewUnaryHandler("/s/m", func(ctx context.Context, r *connect.Request[structpb.Value]) (*connect.Response[structpb.Value], error) {
		return connect.NewResponse(r.Msg), nil
	})
	for _, proto := range []string{"connect", "grpc", "grpcweb"} {
		for _, levels := range []int{40, 60, 400} {
			desc := fmt.Sprintf("%s unary echo of a google.protobuf.Value nested %d lists deep, binary codec", proto, levels)
			c.Begin(desc)
			c.Count("deep-message-probe")
			got := safely(func() string {
				cl := connect.NewClient[structpb.Value, structpb.Value](&inprocClient{h: h}, "http://h/s/m", protoOpts2(proto)...)
				msg := deep(levels)
				res, err := cl.CallUnary(context.Background(), connect.NewRequest(msg))
				if err != nil {
					return "call: " + codeName(err)
				}
				if !proto2.Equal(res.Msg, msg) {
					return "the echo differs from the message"
				}
				return "ok"
			})
			if got != "ok" {
				c.Fail("e2e-deep-message", desc, got, "what the sender's codec encodes, the receiver's decodes")
			}
		}
	}
}

// protoOpts2: the protocol option alone (the library's own codecs).
func protoOpts2(proto string) []connect.ClientOption {
	switch proto {
	case "grpc":
		return []connect.ClientOption{connect.WithGRPC()}
	case "grpcweb":
		return []connect.ClientOption{connect.WithGRPCWeb()}
	}
	return nil
}

func streamE2E(c *Ctx) {
	phantomRequestProbe(c)
	earlyFinishProbe(c)
	requestReuseProbe(c)
	failedSendProbe(c)
	deepMessageProbe(c)
	r := c.Rng
	protos := []string{"connect", "grpc", "grpcweb"}
	kinds := []string{"unary", "client", "server", "bidi"}
	n := 3
	if c.Thorough() {
		n = 30
	}
	for _, proto := range protos {
		for _, kind := range kinds {
			for _, transport := range []string{"inproc", "inproc", "h2", "h1"} {
				if transport == "h1" && kind == "bidi" {
					continue
				}
				reps := n
				if transport != "inproc" {
					reps = 1
					if c.Thorough() {
						reps = 4
					}
				}
				for i := 0; i < reps; i++ {
					k := 1 + r.Intn(5)
					var msgs [][]byte
					for j := 0; j < k; j++ {
						p := genPayload(r, 60)
						if len(p) > 0 && p[0] == 0xEE {
							p[0] = 1
						}
						if j > 0 && r.Chance(40) {
							p = []byte{} // zero-valued message after a non-zero one
						}
						msgs = append(msgs, p)
					}
					if i == 0 {
						msgs = [][]byte{{7}, {}, {}, {3}}
					}
					e := e2eCase{proto: proto, kind: kind, codec: "raw", transport: transport, msgs: msgs,
						sendComp: []string{"", "rle", "gzip", "X-Rle", "accept-rle-x"}[r.Intn(5)], min: []int{0, 0, 1, 10, 100}[r.Intn(5)]}
					runE2E(c, e, nil)
				}
			}
		}
	}
	protoCodecE2E(c)
	foreignPeersE2E(c)
	duplexBlockedSendE2E(c)
	readLimitOptionOrderProbes(c, "e2e-call-failed")
	// a model-comparable op so that the stream is never empty for the differ
	c.Emit("code.str 1", hx([]byte(connect.CodeCanceled.String())), false)
}

// protoCodecE2E: the real proto and JSON codecs with gzip, zero-valued messages, sizes that
// straddle the pool seed (512 B), in both directions through the typed wrappers.
// duplexBlockedSendE2E: full duplex means what it says - while a Send is held up by flow control
// (the handler is not reading yet), messages the handler has already sent are received; when the
// handler then reads, everything sent arrives intact and in order.
func duplexBlockedSendE2E(c *Ctx) {
	for _, proto := range []string{"connect", "grpc", "grpcweb"} {
		desc := proto + " bidi over HTTP/2: the handler sends one message and only later starts reading; the client's 4 x 2 MiB Sends run in one goroutine, its Receive in another"
		c.Count("e2e:duplex-blocked-send")
		got := safely(func() string {
			startReading := make(chan struct{})
			var sizes []int
			h := connect.NewBidiStreamHandler("/s/m", func(ctx context.Context, s *connect.BidiStream[[]byte, []byte]) error {
				if err := s.Send(&[]byte{42}); err != nil {
					return err
				}
				select {
				case <-startReading:
				case <-ctx.Done():
					return ctx.Err()
				}
				for {
					m, err := s.Receive()
					if err != nil {
						break
					}
					sizes = append(sizes, len(*m)*1000+int((*m)[0]))
				}
				return s.Send(&[]byte{43})
			}, connect.WithCodec(rawCodec{"raw"}))
			srv := httptest.NewUnstartedServer(h)
			srv.EnableHTTP2 = true
			srv.StartTLS()
			defer srv.Close()
			opts := []connect.ClientOption{connect.WithCodec(rawCodec{"raw"})}
			if proto == "grpc" {
				opts = append(opts, connect.WithGRPC())
			} else if proto == "grpcweb" {
				opts = append(opts, connect.WithGRPCWeb())
			}
			cl := connect.NewClient[[]byte, []byte](srv.Client(), srv.URL+"/s/m", opts...)
			ctx, cancel := context.WithTimeout(context.Background(), 20*time.Second)
			defer cancel()
			st := cl.CallBidiStream(ctx)
			sendDone := make(chan error, 1)
			go func() {
				var err error
				for i := 0; i < 4 && err == nil; i++ {
					big := bytes.Repeat([]byte{byte(i + 1)}, 2<<20)
					err = st.Send(&big)
				}
				if err == nil {
					err = st.CloseRequest()
				}
				sendDone <- err
			}()
			time.Sleep(300 * time.Millisecond) // let the sender run into flow control
			first := make(chan string, 1)
			go func() {
				m, err := st.Receive()
				if err != nil {
					first <- "error: " + err.Error()
					return
				}
				first <- fmt.Sprint(*m)
			}()
			var res string
			select {
			case res = <-first:
			case <-time.After(4 * time.Second):
				res = "Receive did not return within 4s while a Send was held up"
			}
			close(startReading)
			if res != "[42]" {
				cancel()
				<-sendDone
				return res
			}
			if err := <-sendDone; err != nil {
				return "send: " + err.Error()
			}
			m, err := st.Receive()
			if err != nil || len(*m) != 1 || (*m)[0] != 43 {
				return fmt.Sprintf("last message: %v %v", m, err)
			}
			_ = st.CloseResponse()
			if fmt.Sprint(sizes) != fmt.Sprint([]int{(2<<20)*1000 + 1, (2<<20)*1000 + 2, (2<<20)*1000 + 3, (2<<20)*1000 + 4}) {
				return fmt.Sprintf("the handler received %v", sizes)
			}
			return "ok"
		})
		if got != "ok" {
			c.Fail("e2e-duplex", desc, got, "sending and receiving on one bidi stream got in each other's way")
		}
	}
}

func protoCodecE2E(c *Ctx) {
	sizes := []int{0, 1, 511, 512, 513, 5000}
	if c.Thorough() {
		sizes = append(sizes, 70000, 1<<20, 8<<20+1)
	}
	for _, proto := range []string{"connect", "grpc", "grpcweb"} {
		for _, json := range []bool{false, true} {
			for _, gz := range []bool{false, true} {
				var seen []string
				h := connect.NewBidiStreamHandler("/s/m", func(ctx context.Context, s *connect.BidiStream[wrapperspb.StringValue, wrapperspb.StringValue]) error {
					for {
						m, err := s.Receive()
						if err != nil {
							if errors.Is(err, io.EOF) {
								return nil
							}
							return err
						}
						seen = append(seen, m.Value)
						if err := s.Send(&wrapperspb.StringValue{Value: m.Value}); err != nil {
							return err
						}
					}
				})
				copts := []connect.ClientOption{}
				if json {
					copts = append(copts, connect.WithProtoJSON())
				}
				if gz {
					copts = append(copts, connect.WithSendGzip())
				}
				switch proto {
				case "grpc":
					copts = append(copts, connect.WithGRPC())
				case "grpcweb":
					copts = append(copts, connect.WithGRPCWeb())
				}
				cl := connect.NewClient[wrapperspb.StringValue, wrapperspb.StringValue](&inprocClient{h: h}, "http://h/s/m", copts...)
				s := cl.CallBidiStream(context.Background())
				var want []string
				for i, n := range sizes {
					v := strings.Repeat(string(rune('a'+i%26)), n)
					if i%2 == 1 && n > 0 {
						want = append(want, "") // zero value after a non-zero value
						_ = s.Send(&wrapperspb.StringValue{})
					}
					want = append(want, v)
					_ = s.Send(&wrapperspb.StringValue{Value: v})
				}
				_ = s.CloseRequest()
				var got []string
				var rerr error
				for {
					m, err := s.Receive()
					if err != nil {
						if !errors.Is(err, io.EOF) {
							rerr = err
						}
						break
					}
					got = append(got, m.Value)
				}
				_ = s.CloseResponse()
				op := fmt.Sprintf("e2e proto=%s json=%v gzip=%v sizes=%v (wrapperspb.StringValue, zero values interleaved)", proto, json, gz, sizes)
				c.Count("codec-e2e")
				if rerr != nil || strings.Join(got, "\x00") != strings.Join(want, "\x00") || strings.Join(seen, "\x00") != strings.Join(want, "\x00") {
					c.Fail("e2e-codec", op, fmt.Sprintf("err=%v got=%d seen=%d want=%d", rerr, len(got), len(seen), len(want)), "messages sent are not the messages received with the real proto/JSON codecs")
				}
			}
		}
	}
	_ = http.MethodPost
}

// foreignPeersE2E: peers that are not connect-go but follow the protocol documents - forms the
// library's own client and handler never produce: the bare gRPC content types (protobuf implied),
// an explicit "identity" encoding header, and grpc-status spelled in lower case.
func foreignPeersE2E(c *Ctx) {
	want := [][]string{{"a"}, {"", "b", ""}, {strings.Repeat("x", 700)}}
	// (a) requests from a foreign client to a real handler
	for _, ct := range []string{"application/grpc", "application/grpc-web", "application/grpc+proto", "application/grpc-web+proto", "application/connect+proto"} {
		for _, vals := range want {
			var seen []string
			h := connect.NewClientStreamHandler("/s/m", func(ctx context.Context, s *connect.ClientStream[wrapperspb.StringValue]) (*connect.Response[wrapperspb.StringValue], error) {
				for s.Receive() {
					seen = append(seen, s.Msg().Value)
				}
				return connect.NewResponse(&wrapperspb.StringValue{Value: "done"}), s.Err()
			})
			var body []byte
			for _, v := range vals {
				b, _ := proto.Marshal(&wrapperspb.StringValue{Value: v})
				body = append(body, frame(0, b)...)
			}
			desc := fmt.Sprintf("foreign client, Content-Type %s, %d messages", ct, len(vals))
			got := safely(func() string {
				req := httptest.NewRequest(http.MethodPost, "/s/m", bytes.NewReader(body))
				req.ProtoMajor, req.ProtoMinor, req.Proto = 2, 0, "HTTP/2.0"
				req.Header.Set("Content-Type", ct)
				if strings.Contains(ct, "grpc") {
					req.Header.Set("Grpc-Encoding", "identity") // explicit identity is legal
				} else {
					req.Header.Set("Connect-Content-Encoding", "identity")
				}
				rec := httptest.NewRecorder()
				h.ServeHTTP(rec, req)
				return fmt.Sprintf("status=%d seen=%q", rec.Code, seen)
			})
			c.Count("e2e:foreign-client")
			if got != fmt.Sprintf("status=200 seen=%q", vals) {
				c.Fail("e2e-foreign-peer", desc, got, "a conformant foreign client's messages did not reach user code intact and in order")
			}
		}
	}
	// (a'') a foreign client that offers NO message compression in the protocol's header (but,
	// being a browser or sitting behind one, carries HTTP's own Accept-Encoding) gets its
	// messages back in a form it can read: nothing compressed, nothing labelled compressed
	for _, ct := range []string{"application/grpc-web+proto", "application/grpc-web", "application/grpc+proto", "application/connect+proto", "application/proto"} {
		for _, kind := range []string{"unary", "server"} {
			if (ct == "application/proto") != (kind == "unary" && ct == "application/proto") || (ct == "application/connect+proto" && kind == "unary") {
				continue
			}
			long := strings.Repeat("browser ", 200)
			var h http.Handler
			if kind == "unary" {
				h = connect.NewUnaryHandler("/s/m", func(ctx context.Context, r *connect.Request[wrapperspb.StringValue]) (*connect.Response[wrapperspb.StringValue], error) {
					return connect.NewResponse(&wrapperspb.StringValue{Value: long}), nil
				})
			} else {
				h = connect.NewServerStreamHandler("/s/m", func(ctx context.Context, r *connect.Request[wrapperspb.StringValue], s *connect.ServerStream[wrapperspb.StringValue]) error {
					_ = s.Send(&wrapperspb.StringValue{Value: long})
					return s.Send(&wrapperspb.StringValue{Value: "b"})
				})
			}
			desc := fmt.Sprintf("foreign client without the protocol's accept-encoding header but with Accept-Encoding: gzip, deflate, br; Content-Type %s, %s", ct, kind)
			got := safely(func() string {
				b, _ := proto.Marshal(&wrapperspb.StringValue{Value: "q"})
				body := frame(0, b)
				if ct == "application/proto" {
					body = b
				}
				req := httptest.NewRequest(http.MethodPost, "/s/m", bytes.NewReader(body))
				req.ProtoMajor, req.ProtoMinor, req.Proto = 2, 0, "HTTP/2.0"
				req.Header.Set("Content-Type", ct)
				if ct != "application/proto" { // for unary Connect, Accept-Encoding IS the protocol's header
					req.Header.Set("Accept-Encoding", "gzip, deflate, br")
				}
				rec := httptest.NewRecorder()
				h.ServeHTTP(rec, req)
				for _, k := range []string{"Grpc-Encoding", "Connect-Content-Encoding", "Content-Encoding"} {
					if v := rec.Header().Get(k); v != "" && v != "identity" {
						return fmt.Sprintf("response names %s: %s", k, v)
					}
				}
				out := rec.Body.Bytes()
				if ct == "application/proto" {
					var m wrapperspb.StringValue
					if err := proto.Unmarshal(out, &m); err != nil || m.Value != long {
						return "unary body is not the message"
					}
					return "ok"
				}
				var vals []string
				for len(out) >= 5 {
					n := int(out[1])<<24 | int(out[2])<<16 | int(out[3])<<8 | int(out[4])
					if len(out) < 5+n {
						return "truncated envelope"
					}
					if out[0]&1 != 0 {
						return fmt.Sprintf("envelope with flags %#x is marked compressed", out[0])
					}
					if out[0] == 0 {
						var m wrapperspb.StringValue
						if err := proto.Unmarshal(out[5:5+n], &m); err != nil {
							return "undecodable message"
						}
						vals = append(vals, m.Value)
					}
					out = out[5+n:]
				}
				want := []string{long}
				if kind == "server" {
					want = []string{long, "b"}
				}
				if fmt.Sprint(vals) != fmt.Sprint(want) {
					return fmt.Sprintf("%d messages decoded, want %d", len(vals), len(want))
				}
				return "ok"
			})
			c.Count("e2e:foreign-client")
			if got != "ok" {
				c.Fail("e2e-foreign-peer", desc, got, "the handler answered in a form this peer did not offer to read")
			}
		}
	}
	// (a') unary Connect: a zero-valued message is a zero-byte body, whatever Content-Encoding says
	for _, enc := range []string{"", "identity", "gzip"} {
		var seen []string
		h := connect.NewUnaryHandler("/s/m", func(ctx context.Context, r *connect.Request[wrapperspb.StringValue]) (*connect.Response[wrapperspb.StringValue], error) {
			seen = append(seen, "<"+r.Msg.Value+">")
			return connect.NewResponse(&wrapperspb.StringValue{}), nil
		})
		desc := fmt.Sprintf("foreign client, unary Connect, empty body, Content-Encoding %q", enc)
		got := safely(func() string {
			req := httptest.NewRequest(http.MethodPost, "/s/m", bytes.NewReader(nil))
			req.Header.Set("Content-Type", "application/proto")
			if enc != "" {
				req.Header.Set("Content-Encoding", enc)
			}
			rec := httptest.NewRecorder()
			h.ServeHTTP(rec, req)
			return fmt.Sprintf("status=%d seen=%q", rec.Code, seen)
		})
		c.Count("e2e:foreign-client")
		if got != `status=200 seen=["<>"]` {
			c.Fail("e2e-foreign-peer", desc, got, "a zero-valued unary message (empty body) did not reach user code")
		}
		// … and the same in the response direction
		desc = fmt.Sprintf("foreign server, unary Connect, empty 200 body, Content-Encoding %q", enc)
		got = safely(func() string {
			header := http.Header{"Content-Type": {"application/proto"}}
			if enc != "" {
				header.Set("Content-Encoding", enc)
			}
			sc := &staticClient{status: 200, header: header, body: nil}
			cl := connect.NewClient[wrapperspb.StringValue, wrapperspb.StringValue](sc, "http://h/s/m")
			res, err := cl.CallUnary(context.Background(), connect.NewRequest(&wrapperspb.StringValue{}))
			if err != nil {
				return "err=" + err.Error()
			}
			return fmt.Sprintf("value=%q", res.Msg.Value)
		})
		c.Count("e2e:foreign-server")
		if got != `value=""` {
			c.Fail("e2e-foreign-peer", desc, got, "a zero-valued unary response (empty body) did not reach the application")
		}
	}
	// (b) responses from a foreign server to a real client
	for _, p := range []string{"grpc", "grpcweb", "connect"} {
		for _, vals := range want {
			var body []byte
			for _, v := range vals {
				b, _ := proto.Marshal(&wrapperspb.StringValue{Value: v})
				body = append(body, frame(0, b)...)
			}
			header := http.Header{}
			trailer := http.Header{}
			var opts []connect.ClientOption
			switch p {
			case "grpc":
				header.Set("Content-Type", "application/grpc")
				header.Set("Grpc-Encoding", "identity")
				trailer["Grpc-Status"] = []string{"0"}
				opts = append(opts, connect.WithGRPC())
			case "grpcweb":
				header.Set("Content-Type", "application/grpc-web+proto")
				header.Set("Grpc-Encoding", "identity")
				body = append(body, frame(0x80, []byte("grpc-status: 0\r\n"))...)
				opts = append(opts, connect.WithGRPCWeb())
			default:
				header.Set("Content-Type", "application/connect+proto")
				header.Set("Connect-Content-Encoding", "identity")
				body = append(body, frame(2, []byte("{}"))...)
			}
			desc := fmt.Sprintf("foreign server, %s, explicit identity encoding, %d messages", p, len(vals))
			got := safely(func() string {
				sc := &staticClient{status: 200, header: header, trailer: trailer, body: body}
				cl := connect.NewClient[wrapperspb.StringValue, wrapperspb.StringValue](sc, "http://h/s/m", opts...)
				s, err := cl.CallServerStream(context.Background(), connect.NewRequest(&wrapperspb.StringValue{}))
				if err != nil {
					return "call: " + err.Error()
				}
				var seen []string
				for s.Receive() {
					seen = append(seen, s.Msg().Value)
				}
				e := "ok"
				if s.Err() != nil {
					e = s.Err().Error()
				}
				_ = s.Close()
				return fmt.Sprintf("seen=%q err=%s", seen, e)
			})
			c.Count("e2e:foreign-server")
			if got != fmt.Sprintf("seen=%q err=ok", vals) {
				c.Fail("e2e-foreign-peer", desc, got, "a conformant foreign server's messages did not reach the application intact and in order")
			}
		}
	}
	// (c) a gRPC server that ends an empty stream with a trailers-only OK response
	for _, p := range []string{"grpc", "grpcweb"} {
		opts := []connect.ClientOption{connect.WithGRPC()}
		ct := "application/grpc"
		if p == "grpcweb" {
			opts = []connect.ClientOption{connect.WithGRPCWeb()}
			ct = "application/grpc-web+proto"
		}
		got := safely(func() string {
			sc := &staticClient{status: 200, header: http.Header{"Content-Type": {ct}, "Grpc-Status": {"0"}}, body: nil}
			cl := connect.NewClient[wrapperspb.StringValue, wrapperspb.StringValue](sc, "http://h/s/m", opts...)
			s, err := cl.CallServerStream(context.Background(), connect.NewRequest(&wrapperspb.StringValue{}))
			if err != nil {
				return "call: " + err.Error()
			}
			n := 0
			for s.Receive() {
				n++
			}
			e := "ok"
			if s.Err() != nil {
				e = s.Err().Error()
			}
			_ = s.Close()
			return fmt.Sprintf("messages=%d err=%s", n, e)
		})
		c.Count("e2e:foreign-server")
		if got != "messages=0 err=ok" {
			c.Fail("e2e-foreign-peer", "foreign server, "+p+", empty stream ended by a trailers-only OK response", got, "an empty stream from a conformant server must end cleanly")
		}
	}
	// (d) fields the receiver's schema does not know travel with the message (binary codec) -
	// a peer on a newer schema, a pass-through service
	for _, p := range []string{"connect", "grpc", "grpcweb"} {
		h := connect.NewBidiStreamHandler("/s/m", func(ctx context.Context, s *connect.BidiStream[wrapperspb.StringValue, wrapperspb.StringValue]) error {
			for {
				m, err := s.Receive()
				if err != nil {
					return nil
				}
				if err := s.Send(m); err != nil {
					return err
				}
			}
		})
		got := safely(func() string {
			var opts []connect.ClientOption
			switch p {
			case "grpc":
				opts = append(opts, connect.WithGRPC())
			case "grpcweb":
				opts = append(opts, connect.WithGRPCWeb())
			}
			cl := connect.NewClient[wrapperspb.StringValue, wrapperspb.StringValue](&inprocClient{h: h}, "http://h/s/m", opts...)
			s := cl.CallBidiStream(context.Background())
			sent := &wrapperspb.StringValue{Value: "known"}
			sent.ProtoReflect().SetUnknown(protowire.AppendVarint(protowire.AppendTag(nil, 99, protowire.VarintType), 12345))
			if err := s.Send(sent); err != nil {
				return "send: " + err.Error()
			}
			_ = s.CloseRequest()
			back, err := s.Receive()
			if err != nil {
				return "receive: " + err.Error()
			}
			_ = s.CloseResponse()
			if !proto.Equal(sent, back) {
				return fmt.Sprintf("value=%q unknown=%x", back.Value, back.ProtoReflect().GetUnknown())
			}
			return "equal"
		})
		c.Count("e2e:unknown-fields")
		if got != "equal" {
			c.Fail("e2e-foreign-peer", "message with a field unknown to the receiver's schema, echoed by a bidi handler, "+p, got, "the message received is not the message sent")
		}
	}
}
