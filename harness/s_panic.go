package main

import (
	"bytes"
	"context"
	"errors"
	"fmt"
	"net/http"
	"net/http/httptest"
	"os"
	"runtime"
	"strings"

	connect "github.com/bufbuild/connect-go"
	"google.golang.org/protobuf/types/known/emptypb"
	"google.golang.org/protobuf/types/known/wrapperspb"
)

// S-panic (C19)
//   recover <unary|stream> <isClient> <none|nil|abort|other> kind= proto= point= pre= post= val=

type customPanic struct{ n int }

// sliceError is an error whose dynamic type is not comparable.
type sliceError []string

func (e sliceError) Error() string { return strings.Join(e, "; ") }

// asCoded is an application error type that exposes a *connect.Error through an As method.
type asCoded struct{ inner *connect.Error }

func (e asCoded) Error() string { return "application error: " + e.inner.Error() }
func (e asCoded) As(target any) bool {
	if t, ok := target.(**connect.Error); ok {
		*t = e.inner
		return true
	}
	return false
}

func panicValueFor(class, variant string) any {
	switch class {
	case "nil":
		return nil
	case "abort":
		return http.ErrAbortHandler
	}
	switch variant {
	case "error":
		return errors.New("boom")
	case "string":
		return "boom"
	case "struct":
		return customPanic{7}
	case "wrapped-abort":
		return fmt.Errorf("wrapped: %w", http.ErrAbortHandler)
	case "coded":
		return connect.NewError(connect.CodeNotFound, errors.New("coded panic value"))
	case "int":
		return 42
	case "slice":
		return []string{"not", "hashable"} // values that cannot be map keys or compared with ==
	case "map":
		return map[string]int{"a": 1}
	case "func":
		return func() {}
	case "slice-error":
		return sliceError{"e1", "e2"}
	}
	return "boom"
}

func classify(v any) string {
	switch {
	case v == nil:
		return "nil"
	case v == http.ErrAbortHandler: //nolint
		return "abort"
	}
	return "other"
}

func panicOp(c *Ctx, op string) {
	c.Begin(op)
	f := strings.Fields(op)
	a := kvArgs(f)
	apiKind, class := f[1], f[3]
	var calls []string
	var callVals []any
	handle := func(_ context.Context, _ connect.Spec, _ http.Header, v any) error {
		calls = append(calls, classify(v))
		callVals = append(callVals, v)
		coded := connect.NewError(connect.CodeDataLoss, errors.New("recovered"))
		switch a["ret"] {
		case "wrapped":
			// a recovery function that adds context to a coded error it got from elsewhere
			return fmt.Errorf("while handling the panic: %w", coded)
		case "joined":
			// ... or keeps the panic next to it
			return errors.Join(coded, fmt.Errorf("panic: %v", v))
		case "timeout":
			// ... or hands back an uncoded I/O timeout it ran into itself: still just an uncoded
			// error (unknown), nothing to do with the call's deadline
			return &textOver{text: "recovered", inner: os.ErrDeadlineExceeded}
		case "asmethod":
			// ... or returns its own error type that presents a coded error through errors.As
			return asCoded{coded}
		}
		return coded
	}
	log := &eventLog{}
	var hopts []connect.HandlerOption
	for i := 0; i < atoi(a["pre"]); i++ {
		hopts = append(hopts, connect.WithInterceptors(&logIcpt{id: 10 + i, log: log}))
	}
	hopts = append(hopts, connect.WithRecover(handle))
	for i := 0; i < atoi(a["post"]); i++ {
		hopts = append(hopts, connect.WithInterceptors(&logIcpt{id: 20 + i, log: log}))
	}
	// optional interceptors that are switched off (nil) in groups declared after WithRecover
	switch a["nil"] {
	case "1":
		hopts = append(hopts, connect.WithInterceptors(nil, &logIcpt{id: 30, log: log}))
	case "2":
		hopts = append(hopts, connect.WithInterceptors(&logIcpt{id: 30, log: log}, nil))
	case "3":
		hopts = append(hopts, connect.WithInterceptors(nil))
	case "4":
		hopts = []connect.HandlerOption{connect.WithHandlerOptions(hopts...), connect.WithInterceptors(nil, nil)}
	}
	pv := panicValueFor(class, a["val"])
	declined := connect.NewError(connect.CodeResourceExhausted, errors.New("declined"))
	maybePanic := func(point string) {
		if class != "none" && class != "fail" && a["point"] == point {
			if a["val"] == "runtime" {
				var m map[string]int
				m["a real fault"] = 1 // the runtime panics with a runtime.Error
			}
			panic(pv) //nolint
		}
	}
	// class "fail": the handler returns an ordinary error at that point, without panicking
	failHere := func(point string) bool { return class == "fail" && a["point"] == point }
	var h http.Handler
	switch a["kind"] {
	case "unary":
		h = connect.NewUnaryHandler("/s/m", func(ctx context.Context, req *connect.Request[wrapperspb.Int64Value]) (*connect.Response[wrapperspb.Int64Value], error) {
			if a["fwd"] == "1" {
				// a proxy-style handler: the request it received goes on to a downstream client
				down := connect.NewClient[wrapperspb.Int64Value, wrapperspb.Int64Value](&staticClient{status: 200, header: http.Header{"Content-Type": {"application/proto"}}}, "http://h/down.v1.S/M")
				_, _ = down.CallUnary(ctx, req)
			}
			maybePanic("before")
			maybePanic("between")
			maybePanic("after")
			if class == "fail" {
				return nil, declined
			}
			return connect.NewResponse(&wrapperspb.Int64Value{Value: 1}), nil
		}, hopts...)
	case "client":
		h = connect.NewClientStreamHandler("/s/m", func(ctx context.Context, s *connect.ClientStream[wrapperspb.Int64Value]) (*connect.Response[wrapperspb.Int64Value], error) {
			maybePanic("before")
			if failHere("before") {
				return nil, declined
			}
			for s.Receive() {
			}
			maybePanic("between")
			maybePanic("after")
			if class == "fail" {
				return nil, declined
			}
			return connect.NewResponse(&wrapperspb.Int64Value{Value: 1}), nil
		}, hopts...)
	case "server":
		h = connect.NewServerStreamHandler("/s/m", func(ctx context.Context, req *connect.Request[wrapperspb.Int64Value], s *connect.ServerStream[wrapperspb.Int64Value]) error {
			maybePanic("before")
			if failHere("before") {
				return declined
			}
			_ = s.Send(&wrapperspb.Int64Value{Value: 1})
			maybePanic("between")
			if failHere("between") {
				return declined
			}
			_ = s.Send(&wrapperspb.Int64Value{Value: 2})
			maybePanic("after")
			if class == "fail" {
				return declined
			}
			return nil
		}, hopts...)
	case "bidi":
		h = connect.NewBidiStreamHandler("/s/m", func(ctx context.Context, s *connect.BidiStream[wrapperspb.Int64Value, wrapperspb.Int64Value]) error {
			maybePanic("before")
			for {
				if _, err := s.Receive(); err != nil {
					break
				}
			}
			if failHere("before") {
				return declined
			}
			_ = s.Send(&wrapperspb.Int64Value{Value: 1})
			maybePanic("between")
			if failHere("between") {
				return declined
			}
			_ = s.Send(&wrapperspb.Int64Value{Value: 2})
			maybePanic("after")
			if class == "fail" {
				return declined
			}
			return nil
		}, hopts...)
	}
	var copts []connect.ClientOption
	switch a["proto"] {
	case "grpc":
		copts = append(copts, connect.WithGRPC())
	case "grpcweb":
		copts = append(copts, connect.WithGRPCWeb())
	}
	ic := &inprocClient{h: h}
	cl := connect.NewClient[wrapperspb.Int64Value, wrapperspb.Int64Value](ic, "http://h/s/m", copts...)
	var callErr error
	ans := safely(func() string {
		ctx := context.Background()
		switch a["kind"] {
		case "unary":
			_, callErr = cl.CallUnary(ctx, connect.NewRequest(&wrapperspb.Int64Value{Value: 5}))
		case "client":
			s := cl.CallClientStream(ctx)
			_ = s.Send(&wrapperspb.Int64Value{Value: 5})
			_, callErr = s.CloseAndReceive()
		case "server":
			s, err := cl.CallServerStream(ctx, connect.NewRequest(&wrapperspb.Int64Value{Value: 5}))
			if err != nil {
				callErr = err
				break
			}
			for s.Receive() {
			}
			callErr = s.Err()
			_ = s.Close()
		case "bidi":
			s := cl.CallBidiStream(ctx)
			_ = s.Send(&wrapperspb.Int64Value{Value: 5})
			_ = s.CloseRequest()
			for {
				if _, err := s.Receive(); err != nil {
					if !errors.Is(err, errEOF) {
						callErr = err
					}
					break
				}
			}
			_ = s.CloseResponse()
		}
		outcome := "returned"
		switch {
		case ic.panicked:
			outcome = "panic-" + classify(ic.panicValue)
		case callErr != nil && connect.CodeOf(callErr) == connect.CodeDataLoss && strings.Contains(callErr.Error(), "recovered"):
			outcome = "recovered"
		case callErr != nil && a["ret"] == "timeout" && connect.CodeOf(callErr) == connect.CodeUnknown && strings.Contains(callErr.Error(), "recovered"):
			outcome = "recovered" // the uncoded error of the recovery function, as unknown
		case callErr != nil:
			outcome = "error:" + connect.CodeOf(callErr).String()
		}
		return fmt.Sprintf("calls=[%s] outcome=%s", strings.Join(calls, " "), outcome)
	})
	// the recovered error travels like any handler error: a unary Connect failure is a JSON body
	// under the code's HTTP status, labelled application/json (a peer that is not connect-go goes
	// by that label)
	if a["kind"] == "unary" && a["proto"] == "connect" && class != "none" && class != "abort" && !ic.panicked && ic.last != nil {
		if ct := ic.last.Result().Header.Get("Content-Type"); ic.last.Code == 200 || ct != "application/json" {
			c.Fail("recover-client-error", op, fmt.Sprintf("status=%d Content-Type=%q", ic.last.Code, ct), "a unary Connect error response is JSON under an error status, labelled application/json")
		}
	}
	// oracle
	switch class {
	case "none":
		if len(calls) != 0 || callErr != nil {
			c.Fail("recover-disturbs", op, ans, "a call that does not panic was affected by WithRecover")
		}
	case "fail":
		if len(calls) != 0 || callErr == nil || connect.CodeOf(callErr) != connect.CodeResourceExhausted {
			c.Fail("recover-disturbs", op, ans, "a handler that returns an error without panicking was affected by WithRecover: the recovery function must not run and the client gets the handler's own error")
		}
	case "abort":
		if len(calls) != 0 || !ic.panicked || ic.panicValue != http.ErrAbortHandler { //nolint
			c.Fail("recover-abort", op, ans, "http.ErrAbortHandler must be re-raised untouched, without calling the recovery function")
		}
	default:
		if len(calls) != 1 {
			c.Fail("recover-count", op, ans, "a handler panic must lead to exactly one call of the recovery function")
		} else if a["val"] == "runtime" {
			if re, ok := callVals[0].(runtime.Error); !ok || !strings.Contains(re.Error(), "nil map") {
				c.Fail("recover-value", op, fmt.Sprintf("%#v", callVals[0]), "the recovery function did not get the runtime error the handler panicked with")
			}
		} else if fmt.Sprintf("%#v", callVals[0]) != fmt.Sprintf("%#v", pv) {
			c.Fail("recover-value", op, fmt.Sprintf("%#v", callVals[0]), "the recovery function did not get the recovered value")
		}
		if ic.panicked {
			c.Fail("recover-escaped", op, ans, "the panic escaped ServeHTTP although a recovery function is installed")
		} else if wantCode := map[bool]connect.Code{true: connect.CodeUnknown, false: connect.CodeDataLoss}[a["ret"] == "timeout"]; callErr == nil || connect.CodeOf(callErr) != wantCode {
			c.Fail("recover-client-error", op, ans+" err="+fmt.Sprint(callErr), "the client did not receive the error returned by the recovery function")
		}
	}
	// interceptors declared before the recover interceptor see the converted error (their exit runs)
	if class != "none" && class != "abort" && class != "fail" {
		if n := strings.Count(strings.Join(log.events, " "), "out:1"); n != atoi(a["pre"]) {
			c.Fail("recover-position", op, strings.Join(log.events, " "), "interceptors declared before WithRecover must see the call return normally with the converted error")
		}
	}
	c.Count(a["kind"] + "/" + a["proto"] + "/" + class)
	_ = apiKind
	c.Emit(op, ans, class != "none")
}

var errEOF = fmt.Errorf("EOF")

func init() { errEOF = ioEOF() }

func atoi(s string) int {
	n := 0
	fmt.Sscanf(s, "%d", &n)
	return n
}

func streamPanic(c *Ctx) {
	if replayOp != "" {
		if strings.HasPrefix(replayOp, "rchain ") {
			chainOp(c, replayOp)
			return
		}
		panicOp(c, replayOp)
		return
	}
	r := c.Rng
	_ = emptypb.Empty{}
	kinds := []string{"unary", "client", "server", "bidi"}
	protos := []string{"connect", "grpc", "grpcweb"}
	points := []string{"before", "between", "after"}
	vals := map[string][]string{
		"none": {"-"}, "nil": {"-"}, "abort": {"-"}, "fail": {"-"},
		"other": {"error", "string", "struct", "wrapped-abort", "coded", "int", "runtime", "slice", "map", "func", "slice-error"},
	}
	for _, kind := range kinds {
		api := "stream"
		if kind == "unary" {
			api = "unary"
		}
		for _, proto := range protos {
			for _, class := range []string{"none", "fail", "nil", "abort", "other"} {
				for _, val := range vals[class] {
					for _, point := range points {
						if class == "none" && point != "before" {
							continue
						}
						pre, post := r.Intn(3), r.Intn(3)
						panicOp(c, fmt.Sprintf("recover %s 0 %s kind=%s proto=%s point=%s pre=%d post=%d val=%s", api, class, kind, proto, point, pre, post, val))
						if kind == "unary" && point == "before" {
							panicOp(c, fmt.Sprintf("recover %s 0 %s kind=%s proto=%s point=%s pre=%d post=%d val=%s fwd=1", api, class, kind, proto, point, pre, post, val))
						}
						if point == "after" && class != "none" {
							panicOp(c, fmt.Sprintf("recover %s 0 %s kind=%s proto=%s point=%s pre=%d post=%d val=%s ret=%s", api, class, kind, proto, point, pre, post, val, []string{"joined", "asmethod", "timeout"}[r.Intn(3)]))
						}
						if point == "between" || class == "none" {
							panicOp(c, fmt.Sprintf("recover %s 0 %s kind=%s proto=%s point=%s pre=%d post=%d val=%s nil=%d ret=%s", api, class, kind, proto, point, pre, post, val, 1+r.Intn(4), []string{"coded", "wrapped"}[r.Intn(2)]))
						}
					}
				}
			}
		}
	}
	c.exhaust = true
	streamChains(c)
	panicAfterDeadlineProbe(c)
	sharedOptionRecoverProbe(c)
	invalidUTF8PanicProbe(c)
	recoveredErrorExactProbe(c)
	recoveredErrorAwkwardProbe(c)
	sharedRecoveryErrorProbe(c)
	recoveryAfterDeadlineProbe(c)
	// clean call followed by a panicking call on the same handler (state must not leak)
	for _, kind := range kinds {
		sequenceProbe(c, kind)
	}
	// client-side: WithRecover is a HandlerOption only; the unary wrapper's IsClient branch is
	// exercised by the model op below (identity)
	c.Emit("recover unary 1 other", "calls=[] outcome=panic-other", false)
}

// sharedOptionRecoverProbe: one WithInterceptors option value is used for a handler without
// recovery and then, behind WithRecover(f), for a second handler: the second handler's panics
// reach f exactly once and the client gets f's error.
func sharedOptionRecoverProbe(c *Ctx) {
	for _, kind := range []string{"unary", "server"} {
		calls := 0
		f := func(context.Context, connect.Spec, http.Header, any) error {
			calls++
			return connect.NewError(connect.CodeDataLoss, errors.New("recovered"))
		}
		log := &eventLog{}
		shared := connect.WithInterceptors(&logIcpt{id: 1, log: log})
		mk := func(panics bool, opts ...connect.HandlerOption) http.Handler {
			if kind == "unary" {
				return connect.NewUnaryHandler("/s/m", func(ctx context.Context, req *connect.Request[wrapperspb.Int64Value]) (*connect.Response[wrapperspb.Int64Value], error) {
					if panics {
						panic("boom")
					}
					return connect.NewResponse(&wrapperspb.Int64Value{Value: 1}), nil
				}, opts...)
			}
			return connect.NewServerStreamHandler("/s/m", func(ctx context.Context, req *connect.Request[wrapperspb.Int64Value], s *connect.ServerStream[wrapperspb.Int64Value]) error {
				if panics {
					panic("boom")
				}
				return nil
			}, opts...)
		}
		_ = mk(false, shared) // first use: a service without recovery
		second := mk(true, connect.WithRecover(f), shared)
		ic := &inprocClient{h: second}
		cl := connect.NewClient[wrapperspb.Int64Value, wrapperspb.Int64Value](ic, "http://h/s/m")
		var err error
		got := safely(func() string {
			if kind == "unary" {
				_, err = cl.CallUnary(context.Background(), connect.NewRequest(&wrapperspb.Int64Value{Value: 5}))
			} else {
				s, cerr := cl.CallServerStream(context.Background(), connect.NewRequest(&wrapperspb.Int64Value{Value: 5}))
				if cerr == nil {
					for s.Receive() {
					}
					err = s.Err()
					_ = s.Close()
				} else {
					err = cerr
				}
			}
			return fmt.Sprintf("calls=%d escaped=%v code=%s", calls, ic.panicked, codeOrOK(err))
		})
		c.Count("recover-shared-option")
		if got != "calls=1 escaped=false code=data_loss" {
			c.Fail("recover-count", "a WithInterceptors value used first for a handler without recovery, then behind WithRecover(f) for a "+kind+" handler that panics", got, "a handler panic must lead to exactly one call of the recovery function, whose error reaches the client")
		}
	}
}

// invalidUTF8PanicProbe (F23): "a panic with any value" includes strings that are not valid UTF-8.
// The usual recovery function turns the value into the text of its error; that error must still
// reach the client with its code in every protocol - an error whose text cannot be serialized
// as it stands loses some bytes of the text, not its identity.
func invalidUTF8PanicProbe(c *Ctx) {
	for _, proto := range []string{"connect", "grpc", "grpcweb"} {
		for _, kind := range []string{"unary", "server"} {
			calls := 0
			f := func(_ context.Context, _ connect.Spec, _ http.Header, v any) error {
				calls++
				return connect.NewError(connect.CodeDataLoss, fmt.Errorf("panic: %v", v))
			}
			var h http.Handler
			if kind == "unary" {
				h = connect.NewUnaryHandler("/s/m", func(ctx context.Context, req *connect.Request[wrapperspb.Int64Value]) (*connect.Response[wrapperspb.Int64Value], error) {
					panic("bad\xff\xfeutf8")
				}, connect.WithRecover(f))
			} else {
				h = connect.NewServerStreamHandler("/s/m", func(ctx context.Context, req *connect.Request[wrapperspb.Int64Value], s *connect.ServerStream[wrapperspb.Int64Value]) error {
					panic("bad\xff\xfeutf8")
				}, connect.WithRecover(f))
			}
			ic := &inprocClient{h: h}
			cl := connect.NewClient[wrapperspb.Int64Value, wrapperspb.Int64Value](ic, "http://h/s/m", protoOptsPB(proto)...)
			var err error
			got := safely(func() string {
				if kind == "unary" {
					_, err = cl.CallUnary(context.Background(), connect.NewRequest(&wrapperspb.Int64Value{Value: 5}))
				} else {
					s, cerr := cl.CallServerStream(context.Background(), connect.NewRequest(&wrapperspb.Int64Value{Value: 5}))
					if cerr == nil {
						for s.Receive() {
						}
						err = s.Err()
						_ = s.Close()
					} else {
						err = cerr
					}
				}
				text := ""
				if err != nil {
					text = err.Error()
				}
				return fmt.Sprintf("calls=%d escaped=%v code=%s text-has-prefix=%v", calls, ic.panicked, codeOrOK(err), strings.Contains(text, "panic: bad"))
			})
			c.Count("recover-invalid-utf8")
			if got != "calls=1 escaped=false code=data_loss text-has-prefix=true" {
				c.Fail("recover-invalid-utf8", fmt.Sprintf("%s %s handler panics with a string that is not valid UTF-8; the recovery function returns data_loss with the value in its text", proto, kind), got, "the client must receive the error the recovery function returned (its code, and its text as far as it can be transmitted)")
			}
		}
	}
}

// recoveredErrorExactProbe: the client receives *the error the recovery function returned* -
// its metadata also where the handler had set a trailer under the same key before it panicked,
// and its message byte for byte, blanks at either end included (round 9, C19-mk, C19-ml).
func recoveredErrorExactProbe(c *Ctx) {
	for _, proto := range []string{"connect", "grpc", "grpcweb"} {
		for _, kind := range []string{"unary", "server", "bidi"} {
			for _, sendFirst := range []bool{false, true} {
				if sendFirst && kind == "unary" {
					continue
				}
				f := func(_ context.Context, _ connect.Spec, _ http.Header, v any) error {
					e := connect.NewError(connect.CodeDataLoss, fmt.Errorf("panic: %v", v))
					e.Meta().Set("X-Shared", "from-recover")
					e.Meta().Set("X-Recover-Only", "r1")
					return e
				}
				opts := []connect.HandlerOption{connect.WithCodec(rawCodec{"raw"}), connect.WithRecover(f)}
				var h http.Handler
				switch kind {
				case "unary":
					h = connect.NewUnaryHandler("/s/m", func(ctx context.Context, r *connect.Request[[]byte]) (*connect.Response[[]byte], error) { panic("") }, opts...)
				case "server":
					h = connect.NewServerStreamHandler("/s/m", func(ctx context.Context, r *connect.Request[[]byte], s *connect.ServerStream[[]byte]) error {
						s.ResponseTrailer().Set("X-Shared", "from-handler")
						if sendFirst {
							_ = s.Send(&[]byte{1})
						}
						panic("")
					}, opts...)
				default:
					h = connect.NewBidiStreamHandler("/s/m", func(ctx context.Context, s *connect.BidiStream[[]byte, []byte]) error {
						s.ResponseTrailer().Set("X-Shared", "from-handler")
						if sendFirst {
							_ = s.Send(&[]byte{1})
						}
						panic("")
					}, opts...)
				}
				desc := fmt.Sprintf("%s %s handler (message sent first=%v) sets trailer X-Shared, panics with \"\"; the recovery function returns data_loss \"panic: \" with metadata X-Shared and X-Recover-Only", proto, kind, sendFirst)
				c.Count("recovered-error-exact")
				got := safely(func() string {
					v := callClient(proto, kind, &inprocClient{h: h}, nil, [][]byte{{1}})
					var ce *connect.Error
					if !errors.As(v.err, &ce) {
						return fmt.Sprintf("no coded error: %v", v.err)
					}
					hasOwn := false
					for _, x := range ce.Meta().Values("X-Shared") {
						if x == "from-recover" {
							hasOwn = true
						}
					}
					return fmt.Sprintf("code=%s message=%q own-shared-value=%v recover-only=%q", ce.Code(), ce.Message(), hasOwn, ce.Meta().Values("X-Recover-Only"))
				})
				if want := `code=data_loss message="panic: " own-shared-value=true recover-only=["r1"]`; got != want {
					c.Fail("recover-error-exact", desc, got, "the client receives the error the recovery function returned: "+want)
				}
			}
		}
	}
}

// recoveredErrorAwkwardProbe: the error the recovery function returned reaches the client also
// when it is awkward to carry: a message far longer than the client's read limit on a unary call
// (the limit is about messages; an error is not one), and metadata with a line break in a value
// after a message was already sent (gRPC-Web writes its trailers as an HTTP/1 header block: the
// value is made safe, the error is not lost) - round 11, C19-mo, C19-mp.
func recoveredErrorAwkwardProbe(c *Ctx) {
	long := strings.Repeat("goroutine 1 [running]: main.handler(...) ", 120)
	for _, proto := range []string{"connect", "grpc", "grpcweb"} {
		for _, variant := range []string{"unary call, client read limit 1000, recovered error with a 5 KB message", "server stream that panics after one message, recovered error with a line break in a metadata value"} {
			unary := strings.HasPrefix(variant, "unary")
			f := func(_ context.Context, _ connect.Spec, _ http.Header, v any) error {
				if unary {
					return connect.NewError(connect.CodeFailedPrecondition, errors.New(long))
				}
				e := connect.NewError(connect.CodeFailedPrecondition, errors.New("recovered"))
				e.Meta().Set("X-Stack", "line one\nline two\r\nline three")
				e.Meta().Set("X-Plain", "p")
				return e
			}
			opts := []connect.HandlerOption{connect.WithCodec(rawCodec{"raw"}), connect.WithRecover(f)}
			var h http.Handler
			kind := "server"
			if unary {
				kind = "unary"
				h = connect.NewUnaryHandler("/s/m", func(ctx context.Context, r *connect.Request[[]byte]) (*connect.Response[[]byte], error) {
					panic("boom")
				}, opts...)
			} else {
				h = connect.NewServerStreamHandler("/s/m", func(ctx context.Context, r *connect.Request[[]byte], s *connect.ServerStream[[]byte]) error {
					_ = s.Send(&[]byte{1})
					panic("boom")
				}, opts...)
			}
			desc := proto + " " + variant
			c.Count("recovered-error-awkward")
			got := safely(func() string {
				var extra []connect.ClientOption
				if unary {
					extra = append(extra, connect.WithReadMaxBytes(1000))
				}
				v := callClient(proto, kind, &inprocClient{h: h}, nil, [][]byte{{1}}, extra...)
				var ce *connect.Error
				if !errors.As(v.err, &ce) {
					return fmt.Sprintf("no coded error: %v", v.err)
				}
				if unary {
					return fmt.Sprintf("code=%s message-intact=%v", ce.Code(), ce.Message() == long)
				}
				return fmt.Sprintf("code=%s message=%q plain=%q", ce.Code(), ce.Message(), ce.Meta().Get("X-Plain"))
			})
			want := `code=failed_precondition message="recovered" plain="p"`
			if unary {
				want = "code=failed_precondition message-intact=true"
			}
			if got != want {
				c.Fail("recover-error-exact", desc, got, "the client receives the error the recovery function returned: "+want)
			}
		}
	}
}

// sharedRecoveryErrorProbe: a recovery function may well return one preallocated error for every
// panic (no leaking of panic values). Each client still receives *that* error - not that error
// plus what earlier calls' handlers had put into their trailers (round 10, C19-mm).
func sharedRecoveryErrorProbe(c *Ctx) {
	for _, proto := range []string{"connect", "grpc", "grpcweb"} {
		shared := connect.NewError(connect.CodeInternal, errors.New("internal error"))
		shared.Meta().Set("X-Static", "s")
		n := 0
		h := connect.NewServerStreamHandler("/s/m", func(ctx context.Context, r *connect.Request[[]byte], s *connect.ServerStream[[]byte]) error {
			n++
			s.ResponseTrailer().Set("X-Call", fmt.Sprint(n))
			_ = s.Send(&[]byte{1})
			panic("boom")
		}, connect.WithCodec(rawCodec{"raw"}), connect.WithRecover(func(context.Context, connect.Spec, http.Header, any) error { return shared }))
		var seen []string
		for i := 0; i < 3; i++ {
			v := callClient(proto, "server", &inprocClient{h: h}, nil, [][]byte{{1}})
			var ce *connect.Error
			if errors.As(v.err, &ce) {
				seen = append(seen, fmt.Sprintf("%s X-Call=%q X-Static=%q", ce.Code(), ce.Meta().Values("X-Call"), ce.Meta().Values("X-Static")))
			} else {
				seen = append(seen, fmt.Sprintf("no coded error: %v", v.err))
			}
		}
		c.Count("shared-recovery-error")
		want := `internal X-Call=["1"] X-Static=["s"] | internal X-Call=["2"] X-Static=["s"] | internal X-Call=["3"] X-Static=["s"]`
		if got := strings.Join(seen, " | "); got != want {
			c.Fail("recover-error-exact", proto+": three server-stream calls whose handler sets trailer X-Call and panics; the recovery function returns one preallocated error", got, "each client receives the recovery function's error with its own call's trailers: "+want)
		}
	}
}

// recoveryAfterDeadlineProbe: the peer's timeout has passed by the time the handler panics; the
// recovery function returns a plain Go error. The client receives that error - unknown, as every
// uncoded error - not a code made up from the state of the handler's context (round 10, C19-mn).
func recoveryAfterDeadlineProbe(c *Ctx) {
	for _, proto := range []string{"connect", "grpc", "grpcweb"} {
		for _, kind := range []string{"unary", "server"} {
			f := func(context.Context, connect.Spec, http.Header, any) error {
				return errors.New("recovered: something broke")
			}
			var h http.Handler
			if kind == "unary" {
				h = connect.NewUnaryHandler("/s/m", func(ctx context.Context, r *connect.Request[[]byte]) (*connect.Response[[]byte], error) {
					<-ctx.Done()
					panic("boom")
				}, connect.WithCodec(rawCodec{"raw"}), connect.WithRecover(f))
			} else {
				h = connect.NewServerStreamHandler("/s/m", func(ctx context.Context, r *connect.Request[[]byte], s *connect.ServerStream[[]byte]) error {
					_ = s.Send(&[]byte{1})
					<-ctx.Done()
					panic("boom")
				}, connect.WithCodec(rawCodec{"raw"}), connect.WithRecover(f))
			}
			body := []byte{1}
			if !(proto == "connect" && kind == "unary") {
				body = frame(0, body)
			}
			req := httptest.NewRequest(http.MethodPost, "/s/m", bytes.NewReader(body))
			req.ProtoMajor, req.ProtoMinor, req.Proto = 2, 0, "HTTP/2.0"
			req.Header.Set("Content-Type", ctFor(proto, kind, "raw"))
			if proto == "connect" {
				req.Header.Set("Connect-Timeout-Ms", "30")
			} else {
				req.Header.Set("Grpc-Timeout", "30m")
			}
			rec := httptest.NewRecorder()
			got := safely(func() string {
				h.ServeHTTP(rec, req)
				code, note := responseErrorCode(proto, kind, rec)
				return fmt.Sprintf("code=%d malformed=%q", code, strings.TrimSpace(note))
			})
			c.Count("recovery-after-deadline")
			if got != "code=2 malformed=\"\"" {
				c.Fail("recover-error-exact", fmt.Sprintf("%s %s handler panics after the peer's 30 ms timeout has passed; the recovery function returns a plain error", proto, kind), got, "the peer receives the error the recovery function returned: unknown (code=2)")
			}
		}
	}
}

// sequenceProbe: the same handler serves a clean call, then a panicking one, then a clean one.
func sequenceProbe(c *Ctx, kind string) {
	calls := 0
	panicNow := false
	handle := func(_ context.Context, _ connect.Spec, _ http.Header, v any) error {
		calls++
		return connect.NewError(connect.CodeDataLoss, errors.New("recovered"))
	}
	var h http.Handler
	switch kind {
	case "unary":
		h = connect.NewUnaryHandler("/s/m", func(ctx context.Context, req *connect.Request[wrapperspb.Int64Value]) (*connect.Response[wrapperspb.Int64Value], error) {
			if panicNow {
				panic("boom")
			}
			return connect.NewResponse(&wrapperspb.Int64Value{}), nil
		}, connect.WithRecover(handle))
	default:
		h = connect.NewClientStreamHandler("/s/m", func(ctx context.Context, s *connect.ClientStream[wrapperspb.Int64Value]) (*connect.Response[wrapperspb.Int64Value], error) {
			for s.Receive() {
			}
			if panicNow {
				panic("boom")
			}
			return connect.NewResponse(&wrapperspb.Int64Value{}), nil
		}, connect.WithRecover(handle))
	}
	var results []string
	for i, p := range []bool{false, true, false, true} {
		panicNow = p
		ic := &inprocClient{h: h}
		cl := connect.NewClient[wrapperspb.Int64Value, wrapperspb.Int64Value](ic, "http://h/s/m")
		var err error
		if kind == "unary" {
			_, err = cl.CallUnary(context.Background(), connect.NewRequest(&wrapperspb.Int64Value{}))
		} else {
			s := cl.CallClientStream(context.Background())
			_, err = s.CloseAndReceive()
		}
		results = append(results, fmt.Sprintf("%d:%v:%v", i, ic.panicked, err != nil && connect.CodeOf(err) == connect.CodeDataLoss))
	}
	c.Count("sequence-probe")
	got := strings.Join(results, " ")
	if got != "0:false:false 1:false:true 2:false:false 3:false:true" || calls != 2 {
		c.Fail("recover-sequence", "clean call, panic, clean call, panic on one "+kind+" handler", fmt.Sprintf("%s calls=%d", got, calls), "recovery must work for every call of a handler, whatever earlier calls did")
	}
}

// panicAfterDeadlineProbe (oracle only): the handler panics after its context has ended (the
// peer's timeout passed, or the peer went away): still exactly one call of the recovery
// function with the recovered value, and its error is what goes out.
func panicAfterDeadlineProbe(c *Ctx) {
	for _, proto := range []string{"connect", "grpc", "grpcweb"} {
		for _, kind := range []string{"unary", "server"} {
			var calls []any
			handle := func(_ context.Context, _ connect.Spec, _ http.Header, v any) error {
				calls = append(calls, v)
				return connect.NewError(connect.CodeDataLoss, errors.New("recovered"))
			}
			var h http.Handler
			if kind == "unary" {
				h = connect.NewUnaryHandler("/s/m", func(ctx context.Context, r *connect.Request[[]byte]) (*connect.Response[[]byte], error) {
					<-ctx.Done()
					panic("late boom")
				}, connect.WithCodec(rawCodec{"raw"}), connect.WithRecover(handle))
			} else {
				h = connect.NewServerStreamHandler("/s/m", func(ctx context.Context, r *connect.Request[[]byte], s *connect.ServerStream[[]byte]) error {
					<-ctx.Done()
					panic("late boom")
				}, connect.WithCodec(rawCodec{"raw"}), connect.WithRecover(handle))
			}
			desc := fmt.Sprintf("%s %s handler that panics after its deadline (40 ms, from the peer's timeout header) has passed", proto, kind)
			got := safely(func() string {
				body := []byte{5}
				if !(proto == "connect" && kind == "unary") {
					body = frame(0, []byte{5})
				}
				req := httptest.NewRequest(http.MethodPost, "/s/m", bytes.NewReader(body))
				req.ProtoMajor, req.ProtoMinor, req.Proto = 2, 0, "HTTP/2.0"
				req.Header.Set("Content-Type", ctFor(proto, kind, "raw"))
				if proto == "connect" {
					req.Header.Set("Connect-Timeout-Ms", "40")
				} else {
					req.Header.Set("Grpc-Timeout", "40m")
				}
				rec := httptest.NewRecorder()
				h.ServeHTTP(rec, req)
				code, _ := responseErrorCode(proto, kind, rec)
				return fmt.Sprintf("recovery calls=%d response code=%d", len(calls), code)
			})
			c.Count("panic-after-deadline")
			if got != "recovery calls=1 response code=15" {
				c.Fail("recover-count", desc, got, "a panic after the context ended still leads to exactly one call of the recovery function, whose error (data_loss) reaches the peer")
			} else if calls[0] != "late boom" {
				c.Fail("recover-value", desc, fmt.Sprintf("%#v", calls[0]), "the recovery function did not get the recovered value")
			}
		}
	}
}

// ---- chains in which interceptors panic too (model runChain) ----

// panicIcpt panics with v before calling next, or once next has returned.
type panicIcpt struct {
	when string // "b" or "a"
	v    any
}

func (p *panicIcpt) WrapUnary(next connect.UnaryFunc) connect.UnaryFunc {
	return func(ctx context.Context, req connect.AnyRequest) (connect.AnyResponse, error) {
		if p.when == "b" {
			panic(p.v) //nolint
		}
		res, err := next(ctx, req)
		_, _ = res, err
		panic(p.v) //nolint
	}
}
func (p *panicIcpt) WrapStreamingClient(next connect.StreamingClientFunc) connect.StreamingClientFunc {
	return next
}
func (p *panicIcpt) WrapStreamingHandler(next connect.StreamingHandlerFunc) connect.StreamingHandlerFunc {
	return func(ctx context.Context, conn connect.StreamingHandlerConn) error {
		if p.when == "b" {
			panic(p.v) //nolint
		}
		_ = next(ctx, conn)
		panic(p.v) //nolint
	}
}

// chainOp: "rchain kind=<unary|server> proto=<p> body=<none|fail|nil|abort|other> <layer>..." with
// layers outermost first: p (passes), b:<val> / a:<val> (panics before / after next), r (a
// WithRecover frame; frames are numbered 1.. outermost first).
func chainOp(c *Ctx, op string) {
	c.Begin(op)
	f := strings.Fields(op)
	a := kvArgs(f)
	var calls []string
	var hopts []connect.HandlerOption
	frames, layers := 0, 0
	val := func(s string) any {
		switch s {
		case "nil":
			return nil
		case "abort":
			return http.ErrAbortHandler
		}
		return errors.New("boom-" + s)
	}
	for _, tok := range f[1:] {
		switch {
		case tok == "p":
			hopts = append(hopts, connect.WithInterceptors(&logIcpt{id: 40 + layers, log: &eventLog{}}))
		case tok == "r":
			frames++
			id := frames
			hopts = append(hopts, connect.WithRecover(func(_ context.Context, _ connect.Spec, _ http.Header, v any) error {
				calls = append(calls, fmt.Sprintf("%d:%s", id, classify(v)))
				return connect.NewError(connect.CodeDataLoss, fmt.Errorf("recovered-%d", id))
			}))
		case strings.HasPrefix(tok, "b:") || strings.HasPrefix(tok, "a:"):
			hopts = append(hopts, connect.WithInterceptors(&panicIcpt{when: tok[:1], v: val(tok[2:])}))
		default:
			continue
		}
		layers++
	}
	declined := connect.NewError(connect.CodeResourceExhausted, errors.New("declined"))
	body := func() error {
		switch a["body"] {
		case "none":
			return nil
		case "fail":
			return declined
		}
		panic(val(a["body"])) //nolint
	}
	var h http.Handler
	if a["kind"] == "unary" {
		h = connect.NewUnaryHandler("/s/m", func(ctx context.Context, req *connect.Request[wrapperspb.Int64Value]) (*connect.Response[wrapperspb.Int64Value], error) {
			if err := body(); err != nil {
				return nil, err
			}
			return connect.NewResponse(&wrapperspb.Int64Value{Value: 1}), nil
		}, hopts...)
	} else {
		h = connect.NewServerStreamHandler("/s/m", func(ctx context.Context, req *connect.Request[wrapperspb.Int64Value], s *connect.ServerStream[wrapperspb.Int64Value]) error {
			_ = s.Send(&wrapperspb.Int64Value{Value: 1})
			return body()
		}, hopts...)
	}
	var copts []connect.ClientOption
	switch a["proto"] {
	case "grpc":
		copts = append(copts, connect.WithGRPC())
	case "grpcweb":
		copts = append(copts, connect.WithGRPCWeb())
	}
	ic := &inprocClient{h: h}
	cl := connect.NewClient[wrapperspb.Int64Value, wrapperspb.Int64Value](ic, "http://h/s/m", copts...)
	var callErr error
	ans := safely(func() string {
		ctx := context.Background()
		if a["kind"] == "unary" {
			_, callErr = cl.CallUnary(ctx, connect.NewRequest(&wrapperspb.Int64Value{Value: 5}))
		} else {
			s, err := cl.CallServerStream(ctx, connect.NewRequest(&wrapperspb.Int64Value{Value: 5}))
			if err != nil {
				callErr = err
			} else {
				for s.Receive() {
				}
				callErr = s.Err()
				_ = s.Close()
			}
		}
		outcome := "returned"
		switch {
		case ic.panicked:
			outcome = "panic-" + classify(ic.panicValue)
		case callErr != nil && connect.CodeOf(callErr) == connect.CodeDataLoss && strings.Contains(callErr.Error(), "recovered-"):
			msg := callErr.Error()
			outcome = "recovered:" + msg[strings.Index(msg, "recovered-")+len("recovered-"):]
		case callErr != nil:
			outcome = "error:" + connect.CodeOf(callErr).String()
		}
		return fmt.Sprintf("calls=[%s] outcome=%s", strings.Join(calls, " "), outcome)
	})
	// oracle (independent of the model): nothing but the sentinel escapes a chain whose outermost
	// panicking layer sits below a recover frame; a frame's recovery function runs at most once
	seen := map[string]int{}
	for _, cl := range calls {
		id := cl[:strings.Index(cl, ":")]
		if seen[id]++; seen[id] > 1 {
			c.Fail("recover-chain-twice", op, ans, "one WithRecover frame called its recovery function twice for one call")
		}
		if strings.HasSuffix(cl, ":abort") {
			c.Fail("recover-chain-abort", op, ans, "http.ErrAbortHandler was handed to a recovery function")
		}
	}
	if len(f) > 4 && f[4] == "r" && ic.panicked && ic.panicValue != http.ErrAbortHandler { //nolint
		c.Fail("recover-chain-escaped", op, ans, "a panic other than http.ErrAbortHandler escaped a chain whose outermost interceptor is WithRecover")
	}
	c.Count("chain/" + a["kind"] + "/" + a["proto"] + "/" + a["body"])
	c.Emit(op, ans, true)
}

func streamChains(c *Ctx) {
	r := c.Rng
	vals := []string{"nil", "abort", "other"}
	n := 400
	if c.Thorough() {
		n = 4000
	}
	for i := 0; i < n; i++ {
		var ls []string
		depth := 1 + r.Intn(5)
		for j := 0; j < depth; j++ {
			switch k := r.Intn(8); {
			case k < 3:
				ls = append(ls, "r")
			case k < 5:
				ls = append(ls, "p")
			case k < 6:
				ls = append(ls, "b:"+vals[r.Intn(3)])
			default:
				ls = append(ls, "a:"+vals[r.Intn(3)])
			}
		}
		kind := []string{"unary", "server"}[r.Intn(2)]
		proto := []string{"connect", "grpc", "grpcweb"}[r.Intn(3)]
		body := []string{"none", "fail", "nil", "abort", "other"}[r.Intn(5)]
		chainOp(c, fmt.Sprintf("rchain kind=%s proto=%s body=%s %s", kind, proto, body, strings.Join(ls, " ")))
	}
}
