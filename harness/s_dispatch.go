package main

import (
	"bytes"
	"context"
	"errors"
	"fmt"
	"io"
	"net/http"
	"net/http/httptest"
	"sort"
	"strings"
	"time"

	connect "github.com/bufbuild/connect-go"
)

// S-disp (C12): method / HTTP version / Content-Type sweeps through real handlers.
//   disp kind=K codecs=a,b major=N method=HEX ct=HEX procedure=HEX -> 505 | 405 allow=.. | 415 accept=.. | run ...
//   path HEX   extractProtoPath (hook)            cpath HEX  Spec.Procedure seen by a real client's interceptor

func init() { register("disp", "C12", streamDisp) }

type trackCodec struct {
	rawCodec
	used *string
}

func (t trackCodec) Unmarshal(data []byte, msg any) error {
	*t.used = t.Name()
	return t.rawCodec.Unmarshal(data, msg)
}

// namelessCodec reports the empty name: WithCodec is documented to ignore it.
type namelessCodec struct{ trackCodec }

func (namelessCodec) Name() string { return "" }

type specIcpt struct {
	count int
	spec  connect.Spec
}

func (s *specIcpt) WrapUnary(next connect.UnaryFunc) connect.UnaryFunc {
	return func(ctx context.Context, req connect.AnyRequest) (connect.AnyResponse, error) {
		s.count++
		s.spec = req.Spec()
		return next(ctx, req)
	}
}
func (s *specIcpt) WrapStreamingClient(next connect.StreamingClientFunc) connect.StreamingClientFunc {
	return func(ctx context.Context, spec connect.Spec) connect.StreamingClientConn {
		s.count++
		s.spec = spec
		return next(ctx, spec)
	}
}
func (s *specIcpt) WrapStreamingHandler(next connect.StreamingHandlerFunc) connect.StreamingHandlerFunc {
	return func(ctx context.Context, conn connect.StreamingHandlerConn) error {
		s.count++
		s.spec = conn.Spec()
		return next(ctx, conn)
	}
}

func dispOp(c *Ctx, op string) {
	c.Begin(op)
	a := kvArgs(strings.Fields(op))
	method, ct, procedure := string(unhx(a["method"])), string(unhx(a["ct"])), string(unhx(a["procedure"]))
	ans := safely(func() string {
		used := ""
		icpt := &specIcpt{}
		userRuns := 0
		var userSpec connect.Spec
		// the observing interceptor comes first, followed by a second option carrying two more: all
		// of them belong to the chain of every dispatched call
		side := &eventLog{}
		opts := []connect.HandlerOption{connect.WithInterceptors(icpt), connect.WithInterceptors(&logIcpt{id: 1, log: side}, &logIcpt{id: 2, log: side})}
		for _, name := range strings.Split(a["codecs"], ",") {
			if name == "" {
				opts = append(opts, connect.WithCodec(namelessCodec{trackCodec{rawCodec{"x"}, &used}}))
				continue
			}
			opts = append(opts, connect.WithCodec(trackCodec{rawCodec{name}, &used}))
		}
		var h *connect.Handler
		switch a["kind"] {
		case "unary":
			h = connect.NewUnaryHandler(procedure, func(ctx context.Context, r *connect.Request[[]byte]) (*connect.Response[[]byte], error) {
				userRuns++
				userSpec = r.Spec()
				return connect.NewResponse(&[]byte{1}), nil
			}, opts...)
		case "client":
			h = connect.NewClientStreamHandler(procedure, func(ctx context.Context, s *connect.ClientStream[[]byte]) (*connect.Response[[]byte], error) {
				userRuns++
				for s.Receive() {
				}
				return connect.NewResponse(&[]byte{1}), nil
			}, opts...)
		case "server":
			h = connect.NewServerStreamHandler(procedure, func(ctx context.Context, r *connect.Request[[]byte], s *connect.ServerStream[[]byte]) error {
				userRuns++
				userSpec = r.Spec()
				return nil
			}, opts...)
		default:
			h = connect.NewBidiStreamHandler(procedure, func(ctx context.Context, s *connect.BidiStream[[]byte, []byte]) error {
				userRuns++
				for {
					if _, err := s.Receive(); err != nil {
						return nil
					}
				}
			}, opts...)
		}
		body := ""
		if strings.HasPrefix(ct, "application/grpc") || strings.HasPrefix(ct, "application/connect+") {
			body = string(frame(0, []byte{5}))
		} else {
			body = "\x05"
		}
		req := httptest.NewRequest(http.MethodPost, "/x", strings.NewReader(body))
		req.Method = method
		major := atoi(a["major"])
		req.ProtoMajor, req.ProtoMinor = major, 0
		if major == 1 {
			req.ProtoMinor = atoi(a["minor"])
		}
		req.Proto = fmt.Sprintf("HTTP/%d.%d", req.ProtoMajor, req.ProtoMinor)
		req.Header["Content-Type"] = []string{ct}
		rec := httptest.NewRecorder()
		h.ServeHTTP(rec, req)
		res := rec.Result()
		rejected := res.StatusCode == 505 || res.StatusCode == 405 || res.StatusCode == 415
		if rejected && (userRuns != 0 || icpt.count != 0) {
			c.Fail("disp-rejected-ran", op, fmt.Sprintf("status=%d user=%d icpt=%d", res.StatusCode, userRuns, icpt.count), "user code or interceptors ran for a rejected request")
		}
		switch res.StatusCode {
		case 505:
			return "505"
		case 405:
			return "405 allow=" + res.Header.Get("Allow")
		case 415:
			// oracle: the list advertises exactly the types the handler accepts: probe each
			accept := res.Header.Get("Accept-Post")
			return "415 accept=" + hx([]byte(accept))
		}
		proto := "connect"
		if _, ok := res.Header["Grpc-Accept-Encoding"]; ok {
			proto = "grpcweb"
			if res.Trailer.Get("Grpc-Status") != "" {
				proto = "grpc"
			}
		}
		if userRuns > 0 && (a["kind"] == "unary" || a["kind"] == "server") && (userSpec.StreamType != icpt.spec.StreamType || userSpec.Procedure != icpt.spec.Procedure) {
			c.Fail("disp-user-spec", op, fmt.Sprintf("user code saw %q/%d, interceptor saw %q/%d", userSpec.Procedure, userSpec.StreamType, icpt.spec.Procedure, icpt.spec.StreamType), "user code must observe the Spec the handler was built with, as the interceptors do (the model decides the interceptor's view)")
		}
		return fmt.Sprintf("run proto=%s codec=%s ran=%d/%d spec=%s:%d", proto, used, userRuns, icpt.count, hx([]byte(icpt.spec.Procedure)), icpt.spec.StreamType)
	})
	if strings.HasPrefix(ans, "PANIC") {
		c.Fail("disp-panic", op, ans, "serving the request panicked")
	}
	// oracle for the three guards and for exactly-once
	bidi := a["kind"] == "bidi"
	switch {
	case bidi && atoi(a["major"]) < 2:
		if ans != "505" {
			c.Fail("disp-505", op, ans, "bidi request over HTTP/1.x must get 505")
		}
	case method != "POST":
		if ans != "405 allow=POST" {
			c.Fail("disp-405", op, ans, "non-POST request must get 405 with Allow: POST")
		}
	case strings.HasPrefix(ans, "run"):
		if !strings.Contains(ans, " ran=1/1 ") {
			c.Fail("disp-once", op, ans, "user code and interceptors must run exactly once for a dispatched request")
		}
		if !advertises(a["kind"], a["codecs"], ct) {
			c.Fail("disp-accepted-unadvertised", op, ans, "a Content-Type that is not advertised was dispatched")
		}
		// a Connect call is served as a Connect call: the Connect content type of a registered
		// codec selects the Connect protocol with that codec, even when the codec's name makes the
		// type coincide with one of gRPC's
		pfx := "application/connect+"
		if a["kind"] == "unary" {
			pfx = "application/"
		}
		for _, n := range strings.Split(a["codecs"], ",") {
			if n != "" && ct == pfx+n && !strings.Contains(ans, " proto=connect codec="+n+" ") {
				c.Fail("disp-connect-type-elsewhere", op, ans, "the Connect content type of registered codec "+n+" was not served by the Connect protocol with that codec")
			}
		}
	case strings.HasPrefix(ans, "415"):
		if advertises(a["kind"], a["codecs"], ct) {
			c.Fail("disp-415-advertised", op, ans, "an advertised Content-Type was rejected")
		}
		want := advertisedList(a["kind"], a["codecs"])
		if got := string(unhx(strings.TrimPrefix(ans, "415 accept="))); got != want {
			c.Fail("disp-accept-post", op, got, "Accept-Post must list exactly the accepted content types: "+want)
		}
	}
	c.Count(strings.Fields(ans)[0])
	c.Emit(op, ans, true)
}

// independent statement of the advertised set (from the property text)
func advertisedList(kind, codecs string) string {
	set := map[string]bool{}
	for _, n := range strings.Split(codecs, ",") {
		if n == "" {
			continue // WithCodec with an empty name registers nothing
		}
		if kind == "unary" {
			set["application/"+n] = true
		} else {
			set["application/connect+"+n] = true
		}
		set["application/grpc+"+n] = true
		set["application/grpc-web+"+n] = true
		if n == "proto" {
			set["application/grpc"] = true
			set["application/grpc-web"] = true
		}
	}
	var list []string
	for k := range set {
		list = append(list, k)
	}
	sort.Strings(list)
	return strings.Join(list, ", ")
}

func advertises(kind, codecs, ct string) bool {
	for _, t := range strings.Split(advertisedList(kind, codecs), ", ") {
		if t == ct {
			return true
		}
	}
	return false
}

func pathOp(c *Ctx, op string) {
	c.Begin(op)
	f := strings.Fields(op)
	url := string(unhx(f[1]))
	ans := safely(func() string {
		if f[0] == "path" {
			return hx([]byte(connect.VerifExtractProtoPath(url)))
		}
		icpt := &specIcpt{}
		cl := connect.NewClient[[]byte, []byte](&staticClient{status: 200, header: http.Header{"Content-Type": {"application/raw"}}}, url,
			connect.WithCodec(rawCodec{}), connect.WithInterceptors(icpt))
		_, _ = cl.CallUnary(context.Background(), connect.NewRequest(&[]byte{1}))
		if icpt.count == 0 {
			return "no-call"
		}
		return hx([]byte(icpt.spec.Procedure))
	})
	// oracle: the client's Spec carries the canonical procedure "/<service>/<method>" (what the
	// handler was built with) whatever the base URL looks like
	if segs := strings.Split(url, "/"); f[0] == "cpath" && len(segs) >= 5 && !strings.ContainsAny(url, "?#%") {
		svc, m := segs[len(segs)-2], segs[len(segs)-1]
		if svc != "" && m != "" && strings.HasPrefix(url, "http") {
			if want := hx([]byte("/" + svc + "/" + m)); ans != want {
				c.Fail("client-procedure", op, ans, "the client's Spec.Procedure must be /"+svc+"/"+m+", matching the handler's")
			}
		}
	}
	c.Count(f[0])
	c.Emit(op, ans, true)
}

// specReuseProbe (oracle only): the Spec a client's interceptors and the caller see is the
// client's own - the procedure the answering handler is built with - also when the Request
// value has been through another call before (another client, or a handler forwarding the
// request it received to a downstream client).
func specReuseProbe(c *Ctx) {
	mk := func(url string, icpt *specIcpt) *connect.Client[[]byte, []byte] {
		return connect.NewClient[[]byte, []byte](&staticClient{status: 200, header: http.Header{"Content-Type": {"application/raw"}}}, url,
			connect.WithCodec(rawCodec{}), connect.WithInterceptors(icpt))
	}
	// (a) one Request value, two clients for two procedures
	i1, i2 := &specIcpt{}, &specIcpt{}
	c1, c2 := mk("http://h/acme.v1.A/First", i1), mk("http://h/acme.v1.B/Second", i2)
	req := connect.NewRequest(&[]byte{1})
	_, _ = c1.CallUnary(context.Background(), req)
	_, _ = c2.CallUnary(context.Background(), req)
	c.Count("spec-reuse-probe")
	if i2.spec.Procedure != "/acme.v1.B/Second" || !i2.spec.IsClient || req.Spec().Procedure != "/acme.v1.B/Second" {
		c.Fail("client-procedure", "a Request value used on a client for /acme.v1.A/First and then on one for /acme.v1.B/Second", fmt.Sprintf("second client's interceptor saw %q (IsClient=%v), Request.Spec() says %q", i2.spec.Procedure, i2.spec.IsClient, req.Spec().Procedure), "the client's Spec must be its own procedure, matching the handler that answers")
	}
	// (b) a handler forwards the request it received to a downstream client
	i3 := &specIcpt{}
	down := mk("http://h/acme.v1.Down/Stream", i3)
	h := connect.NewUnaryHandler("/acme.v1.Front/Do", func(ctx context.Context, r *connect.Request[[]byte]) (*connect.Response[[]byte], error) {
		_, _ = down.CallUnary(ctx, r)
		return connect.NewResponse(&[]byte{1}), nil
	}, connect.WithCodec(rawCodec{"raw"}))
	hreq := httptest.NewRequest(http.MethodPost, "/acme.v1.Front/Do", strings.NewReader("\x05"))
	hreq.Header.Set("Content-Type", "application/raw")
	h.ServeHTTP(httptest.NewRecorder(), hreq)
	c.Count("spec-reuse-probe")
	if i3.count != 1 || i3.spec.Procedure != "/acme.v1.Down/Stream" || !i3.spec.IsClient {
		c.Fail("client-procedure", "a handler for /acme.v1.Front/Do forwards the Request it received to a client for /acme.v1.Down/Stream", fmt.Sprintf("downstream interceptor saw %q (IsClient=%v, calls=%d)", i3.spec.Procedure, i3.spec.IsClient, i3.count), "the downstream client's Spec must be its own")
	}
}

// recoverSpecProbe (F21): the recovery function is user code too; it is documented to receive
// the call's Spec and request headers, and it must get them for every RPC kind - not only for
// unary handlers.
func recoverSpecProbe(c *Ctx) {
	for _, proto := range []string{"connect", "grpc", "grpcweb"} {
		for _, kind := range []string{"unary", "client", "server", "bidi"} {
			var gotSpec connect.Spec
			var gotTag string
			calls := 0
			rec := connect.WithRecover(func(ctx context.Context, spec connect.Spec, h http.Header, v any) error {
				calls++
				gotSpec = spec
				if h != nil {
					gotTag = h.Get("X-Probe-Tag")
				}
				return connect.NewError(connect.CodeAborted, errors.New("recovered"))
			})
			opts := []connect.HandlerOption{connect.WithCodec(rawCodec{"raw"}), rec}
			procedure := "/acme.v1.Svc/Boom"
			var h *connect.Handler
			var want connect.StreamType
			switch kind {
			case "unary":
				want = connect.StreamTypeUnary
				h = connect.NewUnaryHandler(procedure, func(ctx context.Context, r *connect.Request[[]byte]) (*connect.Response[[]byte], error) {
					panic("boom")
				}, opts...)
			case "client":
				want = connect.StreamTypeClient
				h = connect.NewClientStreamHandler(procedure, func(ctx context.Context, s *connect.ClientStream[[]byte]) (*connect.Response[[]byte], error) {
					panic("boom")
				}, opts...)
			case "server":
				want = connect.StreamTypeServer
				h = connect.NewServerStreamHandler(procedure, func(ctx context.Context, r *connect.Request[[]byte], s *connect.ServerStream[[]byte]) error {
					panic("boom")
				}, opts...)
			default:
				want = connect.StreamTypeBidi
				h = connect.NewBidiStreamHandler(procedure, func(ctx context.Context, s *connect.BidiStream[[]byte, []byte]) error { panic("boom") }, opts...)
			}
			body := []byte{1}
			if !(proto == "connect" && kind == "unary") {
				body = frame(0, body)
			}
			req := httptest.NewRequest(http.MethodPost, procedure, bytes.NewReader(body))
			req.ProtoMajor, req.ProtoMinor, req.Proto = 2, 0, "HTTP/2.0"
			req.Header.Set("Content-Type", ctFor(proto, kind, "raw"))
			req.Header.Set("X-Probe-Tag", "t-"+kind)
			got := safely(func() string {
				h.ServeHTTP(httptest.NewRecorder(), req)
				return fmt.Sprintf("calls=%d procedure=%q type=%v isClient=%v tag=%q", calls, gotSpec.Procedure, gotSpec.StreamType, gotSpec.IsClient, gotTag)
			})
			c.Count("recover-spec-probe")
			wantS := fmt.Sprintf("calls=1 procedure=%q type=%v isClient=false tag=%q", procedure, want, "t-"+kind)
			if got != wantS {
				c.Fail("disp-recover-spec", fmt.Sprintf("%s %s handler built for %s with WithRecover; user code panics", proto, kind, procedure), got, "the recovery function must observe the Spec the handler was built with and the request's headers: "+wantS)
			}
		}
	}
}

// openBodyReader never reports the end of the request body until released.
type openBodyReader struct{ release chan struct{} }

func (o *openBodyReader) Read(p []byte) (int, error) { <-o.release; return 0, io.EOF }
func (o *openBodyReader) Close() error               { return nil }

// rejectionWhileOpenProbe: a handler's 405 / 415 / 505 does not wait for the request body: the
// peer of a full-duplex call may only finish its upload after it has seen the answer (round 9, C12-ml).
func rejectionWhileOpenProbe(c *Ctx) {
	for _, tc := range []struct {
		what, method, ct string
		major            int
		want             int
	}{
		{"unsupported Content-Type", "POST", "application/x-unknown", 2, 415},
		{"GET", "GET", "application/connect+proto", 2, 405},
		{"bidi over HTTP/1.1", "POST", "application/connect+proto", 1, 505},
	} {
		h := connect.NewBidiStreamHandler("/s/m", func(ctx context.Context, s *connect.BidiStream[[]byte, []byte]) error { return nil })
		body := &openBodyReader{release: make(chan struct{})}
		req := httptest.NewRequest(tc.method, "/s/m", body)
		req.ProtoMajor, req.ProtoMinor = tc.major, 0
		if tc.major == 1 {
			req.ProtoMinor = 1
		}
		req.Header.Set("Content-Type", tc.ct)
		rec := httptest.NewRecorder()
		done := make(chan struct{})
		go func() { defer close(done); h.ServeHTTP(rec, req) }()
		got := ""
		select {
		case <-done:
			got = fmt.Sprintf("answered %d", rec.Code)
		case <-time.After(1500 * time.Millisecond):
			got = "ServeHTTP still waiting for the request body after 1.5 s"
		}
		close(body.release)
		<-done
		c.Count("rejection-while-open")
		if got != fmt.Sprintf("answered %d", tc.want) {
			c.Fail("disp-rejection-waits", "bidi handler, "+tc.what+", request body still open", got, fmt.Sprintf("the rejection is answered at once: %d", tc.want))
		}
	}
}

// sharedOptionTwiceProbe: one WithInterceptors(nil, A, B) value applied to two handlers (what a
// generated service constructor does with its options, once per procedure): on both, every
// accepted request runs A and B once each (round 10, C12-mm).
func sharedOptionTwiceProbe(c *Ctx) {
	for _, kind := range []string{"unary", "server"} {
		a, b := &specIcpt{}, &specIcpt{}
		opt := connect.WithInterceptors(nil, a, b)
		mk := func(procedure string) *connect.Handler {
			if kind == "unary" {
				return connect.NewUnaryHandler(procedure, func(ctx context.Context, r *connect.Request[[]byte]) (*connect.Response[[]byte], error) {
					return connect.NewResponse(&[]byte{1}), nil
				}, connect.WithCodec(rawCodec{"raw"}), opt)
			}
			return connect.NewServerStreamHandler(procedure, func(ctx context.Context, r *connect.Request[[]byte], s *connect.ServerStream[[]byte]) error {
				return nil
			}, connect.WithCodec(rawCodec{"raw"}), opt)
		}
		first, second, third := mk("/acme.v1.Svc/One"), mk("/acme.v1.Svc/Two"), mk("/acme.v1.Svc/Three")
		var got []string
		for i, h := range []*connect.Handler{first, second, third} {
			a.count, b.count = 0, 0
			body := []byte{1}
			ct := "application/raw"
			if kind != "unary" {
				body, ct = frame(0, body), "application/connect+raw"
			}
			req := httptest.NewRequest(http.MethodPost, "/x", bytes.NewReader(body))
			req.ProtoMajor, req.ProtoMinor, req.Proto = 2, 0, "HTTP/2.0"
			req.Header.Set("Content-Type", ct)
			h.ServeHTTP(httptest.NewRecorder(), req)
			got = append(got, fmt.Sprintf("handler%d: A=%d B=%d", i+1, a.count, b.count))
		}
		c.Count("shared-option-twice")
		if s := strings.Join(got, ", "); s != "handler1: A=1 B=1, handler2: A=1 B=1, handler3: A=1 B=1" {
			c.Fail("disp-once", "one WithInterceptors(nil, A, B) option value used to build three "+kind+" handlers; one request to each", s, "interceptors run exactly once per accepted request on every handler")
		}
	}
}

// repeatedContentTypeProbe (C12, oracle only): a request whose Content-Type header has several
// values is dispatched by the first one, as http.Header.Get reads it: an advertised type first
// is served (user code and interceptors once), whatever follows (round 11, C12-mo).
func repeatedContentTypeProbe(c *Ctx) {
	for _, kind := range []string{"unary", "server"} {
		for _, proto := range []string{"connect", "grpc", "grpcweb"} {
			ct := ctFor(proto, kind, "raw")
			for _, values := range [][]string{{ct, ct}, {ct, "text/plain"}, {ct, "", "application/octet-stream"}} {
				icpt := &specIcpt{}
				runs := 0
				var h *connect.Handler
				if kind == "unary" {
					h = connect.NewUnaryHandler("/acme.v1.Svc/Do", func(ctx context.Context, r *connect.Request[[]byte]) (*connect.Response[[]byte], error) {
						runs++
						return connect.NewResponse(&[]byte{1}), nil
					}, connect.WithCodec(rawCodec{"raw"}), connect.WithInterceptors(icpt))
				} else {
					h = connect.NewServerStreamHandler("/acme.v1.Svc/Do", func(ctx context.Context, r *connect.Request[[]byte], s *connect.ServerStream[[]byte]) error {
						runs++
						return nil
					}, connect.WithCodec(rawCodec{"raw"}), connect.WithInterceptors(icpt))
				}
				body := []byte{1}
				if !(proto == "connect" && kind == "unary") {
					body = frame(0, body)
				}
				req := httptest.NewRequest(http.MethodPost, "/acme.v1.Svc/Do", bytes.NewReader(body))
				req.ProtoMajor, req.ProtoMinor, req.Proto = 2, 0, "HTTP/2.0"
				req.Header["Content-Type"] = append([]string(nil), values...)
				rec := httptest.NewRecorder()
				desc := fmt.Sprintf("POST to a %s handler with Content-Type values %q", kind, values)
				c.Count("repeated-content-type")
				got := safely(func() string {
					h.ServeHTTP(rec, req)
					return fmt.Sprintf("status=%d user=%d icpt=%d", rec.Code, runs, icpt.count)
				})
				if got != "status=200 user=1 icpt=1" {
					c.Fail("disp-415-advertised", desc, got, "an advertised Content-Type (the header's first value) was rejected")
				}
			}
		}
	}
}

func streamDisp(c *Ctx) {
	if replayOp != "" {
		if strings.HasPrefix(replayOp, "disp") {
			dispOp(c, replayOp)
		} else {
			pathOp(c, replayOp)
		}
		return
	}
	specReuseProbe(c)
	recoverSpecProbe(c)
	rejectionWhileOpenProbe(c)
	sharedOptionTwiceProbe(c)
	repeatedContentTypeProbe(c)
	doneContextChainProbe(c, "disp-once")
	r := c.Rng
	kinds := []string{"unary", "client", "server", "bidi"}
	codecSets := []string{"proto,json", "proto,json,raw", "proto,json,a,b", "proto,json,json2", "proto,json,raw+v2", "proto,json,,x", "proto,json,grpc,grpc-web", "proto,json,grpc+json,grpc-web+proto", "proto,json,Custom,MixedCase+v2"}
	methods := []string{"POST", "GET", "PUT", "post", "OPTIONS", "HEAD", "DELETE", "PATCH", "POSTX", "POS", "CONNECT", "TRACE"}
	versions := [][2]int{{1, 0}, {1, 1}, {2, 0}, {3, 0}}
	procedure := "/acme.v1.Svc/Do"
	for _, kind := range kinds {
		for _, codecs := range codecSets {
			// every advertised type, near misses of each, plus arbitrary
			var cts []string
			for _, t := range strings.Split(advertisedList(kind, codecs), ", ") {
				cts = append(cts, t, t+";charset=utf-8", t+"; charset=utf-8", t+" ", " "+t, strings.ToUpper(t), t[:len(t)-1], t+"x", strings.Replace(t, "/", "//", 1), t+" ;", strings.Replace(t, "+", " ", 1))
			}
			cts = append(cts, "", "application/", "application/connect+", "application/grpc+", "application/grpc-web+", "text/plain", "application/connect", "application/grpc-web-text", "application/octet-stream", "application/x-protobuf", "*/*")
			nRandom := 6
			if c.Thorough() {
				nRandom = 80
			}
			for i := 0; i < nRandom; i++ {
				cts = append(cts, "application/"+strings.Map(func(r rune) rune {
					if r < 0x21 || r > 0x7e {
						return 'q'
					}
					return r
				}, string(r.Bytes(1+r.Intn(6)))))
			}
			for _, ct := range cts {
				v := versions[r.Intn(len(versions))]
				m := "POST"
				if r.Chance(15) {
					m = methods[r.Intn(len(methods))]
				}
				dispOp(c, fmt.Sprintf("disp kind=%s codecs=%s major=%d minor=%d method=%s ct=%s procedure=%s", kind, codecs, v[0], v[1], hx([]byte(m)), hx([]byte(ct)), hx([]byte(procedure))))
			}
			// all methods x versions on one valid type
			valid := strings.Split(advertisedList(kind, codecs), ", ")[0]
			for _, m := range methods {
				for _, v := range versions {
					dispOp(c, fmt.Sprintf("disp kind=%s codecs=%s major=%d minor=%d method=%s ct=%s procedure=%s", kind, codecs, v[0], v[1], hx([]byte(m)), hx([]byte(valid)), hx([]byte(procedure))))
				}
			}
		}
	}
	// procedures / URLs
	urls := []string{"/acme.v1.Svc/Do", "http://h/acme.v1.Svc/Do", "http://h/api/v1/acme.v1.Svc/Do", "http://h//acme.v1.Svc/Do", "https://h:8443/prefix/more/acme.v1.Svc/Do",
		"http://h/acme.v1.Svc/Do/", "http://h/Svc/Do", "http://h", "http://h/", "http://h/x", "/x", "x", "", "/", "//", "a/b/c/d", "http://h/a/b?q=1", "http://h/a.b.C/D#frag", "http://h/a/%2F/b"}
	for i := 0; i < 200; i++ {
		base := []string{"http://h", "http://h/", "http://h/api", "http://h/api/v1/", "https://example.com:443//x//"}[r.Intn(5)]
		svc := []string{"acme.v1.Svc", "Svc", "a.b.c.D", "x"}[r.Intn(4)]
		m := []string{"Do", "list_things", "X"}[r.Intn(3)]
		urls = append(urls, strings.TrimRight(base, "/")+"/"+svc+"/"+m)
	}
	for _, u := range urls {
		pathOp(c, "path "+hx([]byte(u)))
		if strings.HasPrefix(u, "http") {
			pathOp(c, "cpath "+hx([]byte(u)))
		}
	}
	for _, u := range urls[:8] {
		dispOp(c, fmt.Sprintf("disp kind=unary codecs=proto,json major=2 minor=0 method=%s ct=%s procedure=%s", hx([]byte("POST")), hx([]byte("application/proto")), hx([]byte(u))))
	}
}
