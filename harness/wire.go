package main

import (
	"bufio"
	"bytes"
	"compress/gzip"
	"encoding/base64"
	"encoding/json"
	"fmt"
	"io"
	"net/http"
	"net/textproto"
	"sort"
	"strconv"
	"strings"

	connect "github.com/bufbuild/connect-go"
	"google.golang.org/protobuf/encoding/protojson"
	"google.golang.org/protobuf/encoding/protowire"
	"google.golang.org/protobuf/types/known/anypb"
	_ "google.golang.org/protobuf/types/known/durationpb"
	_ "google.golang.org/protobuf/types/known/wrapperspb"
)

// Structured view of an HTTP exchange, mirroring ConnectModel.Proto (Resp, BodyItem, WireErr)
// and the text formats of lean/Driver/ProtoOps.lean.

type hdr map[string][]string

type wireErr struct {
	code    int
	msg     string
	details []string // each: typeURL + "#" + value bytes
}

type bodyItem struct {
	kind   string // f | end | web | raw | ej
	flags  int
	data   []byte
	err    *wireErr
	header hdr
}

type sresp struct {
	status  int
	header  hdr
	body    []bodyItem
	trailer hdr
}

func showHdr(h hdr) string {
	var keys []string
	for k, vs := range h {
		if len(vs) > 0 {
			keys = append(keys, k)
		}
	}
	if len(keys) == 0 {
		return "-"
	}
	sort.Strings(keys)
	parts := make([]string, len(keys))
	for i, k := range keys {
		vals := make([]string, len(h[k]))
		for j, v := range h[k] {
			vals[j] = hx([]byte(v))
		}
		parts[i] = hx([]byte(k)) + "=" + strings.Join(vals, "|")
	}
	return strings.Join(parts, ";")
}

func parseHdr(s string) hdr {
	h := hdr{}
	if s == "-" {
		return h
	}
	for _, pair := range strings.Split(s, ";") {
		kv := strings.SplitN(pair, "=", 2)
		var vals []string
		for _, v := range strings.Split(kv[1], "|") {
			vals = append(vals, string(unhx(v)))
		}
		h[string(unhx(kv[0]))] = vals
	}
	return h
}

func showWireErr(w *wireErr) string {
	d := "-"
	if len(w.details) > 0 {
		parts := make([]string, len(w.details))
		for i, x := range w.details {
			parts[i] = hx([]byte(x))
		}
		d = strings.Join(parts, "+")
	}
	return fmt.Sprintf("%d/%s/%s", w.code, hx([]byte(w.msg)), d)
}

func parseWireErr(s string) *wireErr {
	p := strings.Split(s, "/")
	code, _ := strconv.Atoi(p[0])
	w := &wireErr{code: code, msg: string(unhx(p[1]))}
	if p[2] != "-" {
		for _, d := range strings.Split(p[2], "+") {
			w.details = append(w.details, string(unhx(d)))
		}
	}
	return w
}

func showItem(it bodyItem) string {
	switch it.kind {
	case "f":
		return fmt.Sprintf("f:%d:%s", it.flags, hx(it.data))
	case "end":
		e := "-"
		if it.err != nil {
			e = showWireErr(it.err)
		}
		return "end:" + e + ":" + showHdr(it.header)
	case "web":
		return "web:" + showHdr(it.header)
	case "raw":
		return "raw:" + hx(it.data)
	case "ej":
		return "ej:" + showWireErr(it.err)
	case "ejz":
		return "ejz:" + showWireErr(it.err)
	}
	return "?"
}

func parseItem(s string) bodyItem {
	p := strings.Split(s, ":")
	switch p[0] {
	case "f":
		fl, _ := strconv.Atoi(p[1])
		return bodyItem{kind: "f", flags: fl, data: unhx(p[2])}
	case "end":
		it := bodyItem{kind: "end", header: parseHdr(p[2])}
		if p[1] != "-" {
			it.err = parseWireErr(p[1])
		}
		return it
	case "web":
		return bodyItem{kind: "web", header: parseHdr(p[1])}
	case "raw":
		return bodyItem{kind: "raw", data: unhx(p[1])}
	case "ej", "ejz":
		return bodyItem{kind: p[0], err: parseWireErr(p[1])}
	}
	panic("bad item " + s)
}

func showBody(items []bodyItem) string {
	if len(items) == 0 {
		return "-"
	}
	parts := make([]string, len(items))
	for i, it := range items {
		parts[i] = showItem(it)
	}
	return strings.Join(parts, ",")
}

func parseBody(s string) []bodyItem {
	if s == "-" {
		return nil
	}
	var items []bodyItem
	for _, p := range strings.Split(s, ",") {
		items = append(items, parseItem(p))
	}
	return items
}

func showResp(r *sresp) string {
	return fmt.Sprintf("status=%d hdr=%s body=%s trl=%s", r.status, showHdr(r.header), showBody(r.body), showHdr(r.trailer))
}

// --- details / status encodings ---------------------------------------------------------

func detailToAny(d string) *anypb.Any {
	i := strings.IndexByte(d, '#')
	return &anypb.Any{TypeUrl: d[:i], Value: []byte(d[i+1:])}
}

func anyToDetail(a *anypb.Any) string { return a.TypeUrl + "#" + string(a.Value) }

// Status protobuf (code=1 varint, message=2 string, details=3 repeated Any{type_url=1,value=2})
func encodeStatusProto(w *wireErr) []byte {
	var b []byte
	if w.code != 0 {
		b = protowire.AppendTag(b, 1, protowire.VarintType)
		b = protowire.AppendVarint(b, uint64(uint32(int32(w.code))))
	}
	if w.msg != "" {
		b = protowire.AppendTag(b, 2, protowire.BytesType)
		b = protowire.AppendString(b, w.msg)
	}
	for _, d := range w.details {
		a := detailToAny(d)
		var ab []byte
		if a.TypeUrl != "" {
			ab = protowire.AppendTag(ab, 1, protowire.BytesType)
			ab = protowire.AppendString(ab, a.TypeUrl)
		}
		if len(a.Value) > 0 {
			ab = protowire.AppendTag(ab, 2, protowire.BytesType)
			ab = protowire.AppendBytes(ab, a.Value)
		}
		b = protowire.AppendTag(b, 3, protowire.BytesType)
		b = protowire.AppendBytes(b, ab)
	}
	return b
}

func decodeStatusProto(b []byte) (*wireErr, bool) {
	w := &wireErr{}
	for len(b) > 0 {
		num, typ, n := protowire.ConsumeTag(b)
		if n < 0 {
			return nil, false
		}
		b = b[n:]
		switch {
		case num == 1 && typ == protowire.VarintType:
			v, n := protowire.ConsumeVarint(b)
			if n < 0 {
				return nil, false
			}
			w.code = int(int32(v))
			b = b[n:]
		case num == 2 && typ == protowire.BytesType:
			v, n := protowire.ConsumeBytes(b)
			if n < 0 {
				return nil, false
			}
			w.msg = string(v)
			b = b[n:]
		case num == 3 && typ == protowire.BytesType:
			v, n := protowire.ConsumeBytes(b)
			if n < 0 {
				return nil, false
			}
			b = b[n:]
			a := &anypb.Any{}
			for len(v) > 0 {
				num2, typ2, n2 := protowire.ConsumeTag(v)
				if n2 < 0 || typ2 != protowire.BytesType {
					return nil, false
				}
				v = v[n2:]
				f, n3 := protowire.ConsumeBytes(v)
				if n3 < 0 {
					return nil, false
				}
				v = v[n3:]
				if num2 == 1 {
					a.TypeUrl = string(f)
				} else if num2 == 2 {
					a.Value = append([]byte(nil), f...)
				}
			}
			w.details = append(w.details, anyToDetail(a))
		default:
			n := protowire.ConsumeFieldValue(num, typ, b)
			if n < 0 {
				return nil, false
			}
			b = b[n:]
		}
	}
	return w, true
}

const detailsBinKey = "Grpc-Status-Details-Bin"

// toyDetailsBin / realDetailsBin convert the Grpc-Status-Details-Bin value between the real
// encoding (base64 of the Status protobuf) and the model's toy encoding (base64 of the text form).
func toToyDetailsBin(h hdr) {
	for k, vs := range h {
		if k != detailsBinKey {
			continue
		}
		for i, v := range vs {
			raw, err := connect.DecodeBinaryHeader(v)
			if err != nil {
				continue
			}
			if w, ok := decodeStatusProto(raw); ok {
				vs[i] = base64.RawStdEncoding.EncodeToString([]byte(showWireErr(w)))
			}
		}
	}
}

func toRealDetailsBin(h hdr) {
	for k, vs := range h {
		if k != detailsBinKey {
			continue
		}
		for i, v := range vs {
			raw, err := base64.RawStdEncoding.DecodeString(v)
			if err != nil || strings.Count(string(raw), "/") != 2 {
				continue
			}
			vs[i] = base64.RawStdEncoding.EncodeToString(encodeStatusProto(parseWireErr(string(raw))))
		}
	}
}

// --- Connect JSON error / end-of-stream -------------------------------------------------

func codeFromName(s string) int {
	var c connect.Code
	if err := c.UnmarshalText([]byte(s)); err != nil {
		return -1
	}
	return int(c)
}

func parseJSONError(raw json.RawMessage) (*wireErr, bool) {
	var obj struct {
		Code    string            `json:"code"`
		Message string            `json:"message"`
		Details []json.RawMessage `json:"details"`
	}
	if err := json.Unmarshal(raw, &obj); err != nil {
		return nil, false
	}
	w := &wireErr{code: codeFromName(obj.Code), msg: obj.Message}
	if obj.Code == "" {
		w.code = 0
	}
	for _, d := range obj.Details {
		a := &anypb.Any{}
		if err := protojson.Unmarshal(d, a); err != nil {
			return nil, false
		}
		w.details = append(w.details, anyToDetail(a))
	}
	return w, true
}

func marshalJSONError(w *wireErr) []byte {
	obj := map[string]any{}
	if w.code != 0 || true {
		obj["code"] = connect.Code(w.code).String()
	}
	if w.msg != "" {
		obj["message"] = w.msg
	}
	var ds []json.RawMessage
	for _, d := range w.details {
		b, err := protojson.Marshal(detailToAny(d))
		if err != nil {
			panic(err)
		}
		ds = append(ds, b)
	}
	if ds != nil {
		obj["details"] = ds
	}
	b, _ := json.Marshal(obj)
	return b
}

// --- envelopes / trailer blocks ------------------------------------------------------------

func splitEnvelopes(b []byte) (frames [][2]any, rest []byte) {
	for len(b) >= 5 {
		n := int(b[1])<<24 | int(b[2])<<16 | int(b[3])<<8 | int(b[4])
		if len(b) < 5+n {
			break
		}
		frames = append(frames, [2]any{int(b[0]), b[5 : 5+n]})
		b = b[5+n:]
	}
	return frames, b
}

func decompressNamed(name string, p []byte) ([]byte, bool) {
	switch name {
	case "gzip":
		zr, err := gzip.NewReader(bytes.NewReader(p))
		if err != nil {
			return nil, false
		}
		out, err := io.ReadAll(zr)
		return out, err == nil
	case "", "identity":
		return nil, false
	default:
		return rleExpand(p, 1<<26)
	}
}

func compressNamed(name string, p []byte) []byte {
	if name == "gzip" {
		var buf bytes.Buffer
		zw := gzip.NewWriter(&buf)
		_, _ = zw.Write(p)
		_ = zw.Close()
		return buf.Bytes()
	}
	return rleCompress(p)
}

func parseTrailerBlock(p []byte) (hdr, bool) {
	rd := textproto.NewReader(bufio.NewReader(bytes.NewReader(append(append([]byte(nil), p...), '\r', '\n'))))
	mh, err := rd.ReadMIMEHeader()
	if err != nil {
		return nil, false
	}
	return hdr(mh), true
}

func writeTrailerBlock(h hdr) []byte {
	var buf bytes.Buffer
	_ = http.Header(h).Write(&buf)
	return buf.Bytes()
}

// canonicalResponse turns a recorded real response into the structured view.
func canonicalResponse(proto, kind string, status int, header, trailer http.Header, body []byte, encHeader string) (*sresp, string) {
	r := &sresp{status: status, header: hdr{}, trailer: hdr{}}
	for k, v := range header {
		if strings.HasPrefix(k, http.TrailerPrefix) {
			continue // net/http turns these into HTTP trailers; the recorder also leaves them in its header snapshot
		}
		r.header[k] = append([]string(nil), v...)
	}
	for k, v := range trailer {
		r.trailer[k] = append([]string(nil), v...)
	}
	toToyDetailsBin(r.header)
	toToyDetailsBin(r.trailer)
	note := ""
	enc := header.Get(encHeader)
	if proto == "connect" && kind == "unary" {
		if status == 200 {
			if len(body) > 0 || true {
				r.body = []bodyItem{{kind: "raw", data: body}}
			}
			return r, note
		}
		if w, ok := parseJSONError(body); ok {
			r.body = []bodyItem{{kind: "ej", err: w}}
		} else if len(body) == 0 {
			note = "empty-error-body"
		} else {
			r.body = []bodyItem{{kind: "raw", data: body}}
			note = "unparsable-error-body"
		}
		return r, note
	}
	frames, rest := splitEnvelopes(body)
	if len(rest) > 0 {
		note = "trailing-garbage"
	}
	for _, f := range frames {
		flags, p := f[0].(int), f[1].([]byte)
		special := flags &^ 1
		switch {
		case special == 0:
			r.body = append(r.body, bodyItem{kind: "f", flags: flags, data: p})
		case proto == "connect" && special == 2, proto == "grpcweb" && special == 0x80:
			if flags&1 != 0 {
				if enc == "" || enc == "identity" {
					note = "compressed-flag-without-encoding-header"
				}
				d, ok := decompressNamed(enc, p)
				if !ok {
					note = "terminator-not-decompressible"
					r.body = append(r.body, bodyItem{kind: "f", flags: flags, data: p})
					continue
				}
				p = d
			}
			if special == 2 {
				var end struct {
					Error    json.RawMessage     `json:"error"`
					Metadata map[string][]string `json:"metadata"`
				}
				if err := json.Unmarshal(p, &end); err != nil {
					note = "end-stream-not-json"
					r.body = append(r.body, bodyItem{kind: "f", flags: flags, data: p})
					continue
				}
				it := bodyItem{kind: "end", header: hdr(end.Metadata)}
				if it.header == nil {
					it.header = hdr{}
				}
				if len(end.Error) > 0 && string(end.Error) != "null" {
					if w, ok := parseJSONError(end.Error); ok {
						it.err = w
					} else {
						note = "end-stream-error-unparsable"
					}
				}
				r.body = append(r.body, it)
			} else {
				h, ok := parseTrailerBlock(p)
				if !ok {
					note = "web-trailer-unparsable"
					r.body = append(r.body, bodyItem{kind: "f", flags: flags, data: p})
					continue
				}
				toToyDetailsBin(h)
				r.body = append(r.body, bodyItem{kind: "web", header: h})
			}
		default:
			r.body = append(r.body, bodyItem{kind: "f", flags: flags, data: p})
		}
	}
	return r, note
}

// serialize turns a structured response into real bytes for a crafted *http.Response.
func (r *sresp) serialize(proto string) (http.Header, []byte, http.Header) {
	header, trailer := http.Header{}, http.Header{}
	h2, t2 := hdr{}, hdr{}
	for k, v := range r.header {
		h2[k] = append([]string(nil), v...)
	}
	for k, v := range r.trailer {
		t2[k] = append([]string(nil), v...)
	}
	toRealDetailsBin(h2)
	toRealDetailsBin(t2)
	for k, v := range h2 {
		header[k] = v
	}
	for k, v := range t2 {
		trailer[k] = v
	}
	var body []byte
	for _, it := range r.body {
		switch it.kind {
		case "f":
			body = append(body, frame(byte(it.flags), it.data)...)
		case "raw":
			body = append(body, it.data...)
		case "ej":
			body = append(body, marshalJSONError(it.err)...)
		case "ejz":
			body = append(body, compressNamed(r.header["Content-Encoding"][0], marshalJSONError(it.err))...)
		case "end":
			obj := map[string]any{}
			if it.err != nil {
				obj["error"] = json.RawMessage(marshalJSONError(it.err))
			}
			if len(it.header) > 0 {
				obj["metadata"] = map[string][]string(it.header)
			}
			b, _ := json.Marshal(obj)
			body = append(body, frame(2, b)...)
		case "web":
			h := hdr{}
			for k, v := range it.header {
				h[k] = append([]string(nil), v...)
			}
			toRealDetailsBin(h)
			body = append(body, frame(0x80, bytes.TrimSuffix(writeTrailerBlock(h), nil))...)
		}
	}
	return header, body, trailer
}
